package main

import (
	"fmt"
	"math/rand"
	"sort"
	"strings"
	"time"

	"github.com/Tom-Johnston/mamba/graph/search"
)

// Protocols of property C03.
//
// c03chain <pred> <place> <m> <N> lv <masks of level 0> ... <masks of level N>
//     level k < N : the graphs yielded by WithPruning(k, 0, 1, pred@place); level N: those of the m shards
//     WithPruning(N, a, m, pred@place), a = 0..m-1, concatenated.  ("-" = empty list; masks comma separated.)
//     The lists are written into the request by Gen from the real library, so that the verified Lean checker
//     (GSearch.checkLevels) sees the implementation's output.  Reply = the checker's verdict
//     (ok | illformed .. | notP .. | dup .. | missing ..).
//     Go side: Out = the verdict of an independent re-implementation of the checker on the lists in the request;
//     Oracle = the same check plus well-formedness of every yielded *DenseGraph on the lists the library produces
//     now (so a replay on a repaired tree is quiet, and on a broken tree it reproduces).
//
// c03cls <n> <m> <pred> <place>
//     model-independent statement of C03 on the implementation for larger n: the m shards together and the
//     m = 1 iterator yield the same classes; pairwise non-isomorphic (independent complete invariant); count equals
//     the known number of graphs (pred none); with a hereditary predicate: classes yielded = classes of the
//     filtered full list, placed as preprune, prune or both.  Reply: count=<number of classes> for the predicates
//     whose class numbers are tabulated in Lean (Spec constant), otherwise count=-.

// c03SubsetOrder: masks of the subsets of {0..n-1} in the order of GSearch.subsets (List.range n).
func c03SubsetOrder(n int) []uint64 {
	var rec func(lo int) []uint64
	rec = func(lo int) []uint64 {
		if lo == n {
			return []uint64{0}
		}
		rest := rec(lo + 1)
		out := append([]uint64{}, rest...)
		for _, s := range rest {
			out = append(out, s|1<<uint(lo))
		}
		return out
	}
	return rec(0)
}

// c03CheckLevels is the Go re-implementation of GSearch.checkLevels (same verdict strings).
func c03CheckLevels(p c03Pred, levels [][]uint64) string {
	var prevCanon map[uint64]bool
	_ = prevCanon
	for k, cur := range levels {
		tk := uint(k * (k - 1) / 2)
		if k == 0 {
			tk = 0
		}
		for i, m := range cur {
			if m>>tk != 0 {
				return fmt.Sprintf("illformed level=%d i=%d", k, i)
			}
		}
		for i, m := range cur {
			if !p.Has(k, c03Adj(k, m)) {
				return fmt.Sprintf("notP level=%d i=%d", k, i)
			}
		}
		first := map[uint64]int{}
		canons := make([]uint64, len(cur))
		for j, m := range cur {
			c := c03Canon(k, m)
			canons[j] = c
			if i, ok := first[c]; ok {
				return fmt.Sprintf("dup level=%d i=%d j=%d", k, i, j)
			}
			first[c] = j
		}
		if k == 0 {
			if p.Has(0, c03Adj(0, 0)) && len(cur) == 0 {
				return "missing level=0"
			}
			continue
		}
		order := c03SubsetOrder(k - 1)
		for i, pm := range levels[k-1] {
			for _, s := range order {
				child := pm | s<<c03PairIndex(0, k-1)
				if k-1 == 0 {
					child = 0
				}
				if !p.Has(k, c03Adj(k, child)) {
					continue
				}
				if _, ok := first[c03Canon(k, child)]; !ok {
					return fmt.Sprintf("missing level=%d parent=%d S=%d", k, i, s)
				}
			}
		}
	}
	return "ok"
}

// c03Levels runs the library: levels 0..N-1 with m = 1, level N with the m shards.
func c03Levels(p c03Pred, place string, m, N int, wf *string) [][]uint64 {
	pre, pr := c03Funcs(p, place)
	levels := make([][]uint64, N+1)
	for k := 0; k < N; k++ {
		levels[k] = c03Collect(search.WithPruning(k, 0, 1, pre, pr), k, wf)
	}
	for a := 0; a < m; a++ {
		levels[N] = append(levels[N], c03Collect(search.WithPruning(N, a, m, pre, pr), N, wf)...)
	}
	return levels
}

func c03LevelTokens(levels [][]uint64) string {
	parts := make([]string, len(levels))
	for i, l := range levels {
		if len(l) == 0 {
			parts[i] = "-"
		} else {
			parts[i] = c03ShowMasks(l)
		}
	}
	return strings.Join(parts, " ")
}

// numbers of isomorphism classes with the predicate (same table as GSearch.knownClasses in Lean)
var c03KnownByPred = map[string][]int{
	"none":   {1, 1, 2, 4, 11, 34, 156, 1044, 12346, 274668},
	"tri":    {1, 1, 2, 3, 7, 14, 38, 107, 410, 1897},
	"forest": {1, 1, 2, 3, 6, 10, 20, 37, 76, 153},
	"bip":    {1, 1, 2, 3, 7, 13, 35, 88, 303, 1119},
}

func c03ClassSet(n int, ms []uint64) (map[uint64]int, string) {
	set := map[uint64]int{}
	for j, m := range ms {
		c := c03Canon(n, m)
		if i, ok := set[c]; ok {
			return set, fmt.Sprintf("yielded graphs #%d (mask %d) and #%d (mask %d) are isomorphic", i, ms[i], j, m)
		}
		set[c] = j
	}
	return set, ""
}

func init() {
	register(&Proto{
		Name:    "c03chain",
		Props:   []string{"C03"},
		Timeout: 600 * time.Second,
		Run: func(args []string) Result {
			if len(args) < 5 || args[4] != "lv" {
				return Result{Out: "bad-op"}
			}
			p, ok := c03PredByName(args[0])
			if !ok {
				return Result{Out: "bad-op"}
			}
			place, m, N := args[1], atoi(args[2]), atoi(args[3])
			if len(args) != 5+N+1 {
				return Result{Out: "bad-op"}
			}
			given := make([][]uint64, N+1)
			for k := 0; k <= N; k++ {
				given[k] = c03ParseMasks(args[5+k])
			}
			out := c03CheckLevels(p, given)
			// the property on what the library yields now
			wf := ""
			now := c03Levels(p, place, m, N, &wf)
			oracle := ""
			if wf != "" {
				oracle = fmt.Sprintf("WithPruning(n<=%d, %s as %s, m=%d): %s", N, p.Name, place, m, wf)
			} else if v := c03CheckLevels(p, now); v != "ok" {
				oracle = fmt.Sprintf("search with %s as %s, m=%d: the yielded lists for n=0..%d are not exact transversals of the isomorphism classes: %s (lists: %s)", p.Name, place, m, N, v, c03LevelTokens(now))
			}
			tags := []string{"pred-" + p.Name, "place-" + place, fmt.Sprintf("N%d", N), fmt.Sprintf("m%d", m)}
			if fmt.Sprint(now) != fmt.Sprint(given) {
				tags = append(tags, "stale-request")
			}
			if N >= 4 {
				tags = append(tags, "nontrivial")
			}
			return Result{Out: out, Oracle: oracle, Tags: tags}
		},
		Gen: func(r *rand.Rand, tier string, emit func(string)) {
			line := func(pred, place string, m, N int) {
				p, _ := c03PredByName(pred)
				emit(fmt.Sprintf("c03chain %s %s %d %d lv %s", pred, place, m, N, c03LevelTokens(c03Levels(p, place, m, N, nil))))
			}
			maxN := 6
			if tier == "thorough" {
				maxN = 7
			}
			for N := 0; N <= maxN; N++ {
				line("none", "-", 1, N)
			}
			for m := 2; m <= 6; m++ {
				for N := 2; N <= maxN; N++ {
					if N >= 6 && m != 2+(N+int(r.Int31n(5)))%5 && tier != "thorough" {
						continue
					}
					line("none", "-", m, N)
				}
			}
			for _, pd := range []string{"ord0", "ord1", "ord2", "ord4"} {
				for _, pl := range []string{"pre", "prune"} {
					for N := 0; N <= 5; N++ {
						line(pd, pl, 1+r.Intn(3), N)
					}
				}
			}
			preds := []string{"deg1", "deg2", "deg3", "tri", "k4", "forest", "bip"}
			for _, pd := range preds {
				for _, pl := range []string{"pre", "prune", "both"} {
					N := maxN
					if pd == "k4" && tier != "thorough" {
						N = 5 + r.Intn(2)
					}
					line(pd, pl, 1, N)
					line(pd, pl, 2+r.Intn(5), 3+r.Intn(N-2))
				}
			}
		},
	})

	register(&Proto{
		Name:    "c03cls",
		Props:   []string{"C03"},
		Timeout: 1200 * time.Second,
		Run: func(args []string) Result {
			if len(args) != 4 {
				return Result{Out: "bad-op"}
			}
			n, m := atoi(args[0]), atoi(args[1])
			p, ok := c03PredByName(args[2])
			if !ok {
				return Result{Out: "bad-op"}
			}
			place := args[3]
			pre, pr := c03Funcs(p, place)
			cfg := fmt.Sprintf("WithPruning(n=%d, %s as %s)", n, p.Name, place)
			oracle := ""
			fail := func(f string, a ...interface{}) {
				if oracle == "" {
					oracle = cfg + ": " + fmt.Sprintf(f, a...)
				}
			}
			wf := ""
			one := c03Collect(search.WithPruning(n, 0, 1, pre, pr), n, &wf)
			shards := []uint64{}
			sizes := []int{}
			for a := 0; a < m; a++ {
				s := c03Collect(search.WithPruning(n, a, m, pre, pr), n, &wf)
				sizes = append(sizes, len(s))
				shards = append(shards, s...)
			}
			if wf != "" {
				fail("%s", wf)
			}
			setOne, dup := c03ClassSet(n, one)
			if dup != "" {
				fail("a = 0, m = 1: %s", dup)
			}
			setSh, dup := c03ClassSet(n, shards)
			if dup != "" {
				fail("the %d shards together (sizes %v): %s", m, sizes, dup)
			}
			for c, i := range setOne {
				if _, ok := setSh[c]; !ok {
					fail("the class of mask %d (yielded with m = 1) is yielded by none of the %d shards (sizes %v)", one[i], m, sizes)
					break
				}
			}
			for c, i := range setSh {
				if _, ok := setOne[c]; !ok {
					fail("the class of mask %d is yielded by a shard of m = %d but not with m = 1", shards[i], m)
					break
				}
			}
			// every yielded graph has the property
			for _, g := range shards {
				if !p.Has(n, c03Adj(n, g)) {
					fail("yielded graph with mask %d does not satisfy %s", g, p.Name)
					break
				}
			}
			// classes = filter of the full list
			if p.Name != "none" {
				full := c03Collect(search.All(n, 0, 1), n, nil)
				want := map[uint64]uint64{}
				for _, g := range full {
					if p.Has(n, c03Adj(n, g)) {
						want[c03Canon(n, g)] = g
					}
				}
				for c, g := range want {
					if _, ok := setSh[c]; !ok {
						fail("the class of mask %d satisfies %s and is yielded by All(%d,0,1) but not by the pruned search (m = %d)", g, p.Name, n, m)
						break
					}
				}
				if len(want) != len(setSh) && oracle == "" {
					fail("%d classes yielded, but %d classes of All(%d,0,1) satisfy %s", len(setSh), len(want), n, p.Name)
				}
			}
			out := "count=-"
			if tab, ok := c03KnownByPred[p.Name]; ok && n < len(tab) {
				out = fmt.Sprintf("count=%d", len(setSh))
				if len(setSh) != tab[n] || len(shards) != tab[n] {
					fail("%d graphs in %d classes yielded by the %d shards (sizes %v); the number of classes is %d", len(shards), len(setSh), m, sizes, tab[n])
				}
			}
			tags := []string{"pred-" + p.Name, "place-" + place, fmt.Sprintf("n%d", n), fmt.Sprintf("m%d", m)}
			if n >= 4 {
				tags = append(tags, "nontrivial")
			}
			sort.Strings(tags)
			return Result{Out: out, Oracle: oracle, Tags: tags}
		},
		Gen: func(r *rand.Rand, tier string, emit func(string)) {
			maxN := 7
			if tier == "thorough" {
				maxN = 8
			}
			for n := 0; n <= maxN; n++ {
				for m := 1; m <= 6; m++ {
					emit(fmt.Sprintf("c03cls %d %d none -", n, m))
				}
			}
			emit(fmt.Sprintf("c03cls 8 %d none -", 1+r.Intn(6)))
			preds := []string{"ord0", "ord1", "ord3", "deg1", "deg2", "deg3", "deg4", "tri", "k4", "forest", "bip"}
			for _, pd := range preds {
				for _, pl := range []string{"pre", "prune", "both"} {
					for n := 0; n <= maxN; n++ {
						emit(fmt.Sprintf("c03cls %d %d %s %s", n, 1+r.Intn(6), pd, pl))
					}
				}
			}
			if tier == "thorough" {
				emit("c03cls 9 1 none -")
				emit(fmt.Sprintf("c03cls 9 %d none -", 2+r.Intn(5)))
				for _, pd := range preds {
					emit(fmt.Sprintf("c03cls 9 %d %s %s", 1+r.Intn(6), pd, []string{"pre", "prune", "both"}[r.Intn(3)]))
				}
			}
		},
	})
}
