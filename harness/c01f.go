package main

import (
	"fmt"
	"math/rand"
	"sort"
	"strings"

	"github.com/Tom-Johnston/mamba/graph"
)

// Pattern-F protocols of C01 / C02: exact-output correspondence with the faithful Lean model of graph/canonical.go
// (lean/Mamba/Model/CanonF.lean).
//
//	canonf  <graph> [; class]*              CanonicalIsomorphFull(g, classes); reply
//	                                        perm=[..] orbits=[raw disjoint.Set] gens=[[..] [..]]   (or "panic")
//	canonfv <bits> <graph>                  CanonicalIsomorphAllocated on fresh storage with CheckViability, ViableBits = bits;
//	                                        reply "nil" for the early exit, otherwise as canonf
//	histf   <N> <M> | <graph> [; class]* | ...   one NewStorage(N, M) / NewOrderedPartition(N, M, nil) pair, Reset + Allocated per
//	                                        graph; reply: the canonf replies joined by " | " (a panic ends the history)
//
// The reply is the implementation's exact output (no canonicalisation): the model runs the same statements, so the two
// must be byte-identical. Oracle (independent of the model): the permutation is a permutation; every generator is a
// (class-preserving) automorphism; the partition read off the raw union-find equals the orbit partition of Aut(g) found
// by backtracking and the generators generate a group of order |Aut(g)| (small groups; otherwise: orbits = orbits of the
// generators); the canonical graph is the same for two class-preserving relabellings; histf: reused storage gives
// exactly the output of a fresh call; canonfv: nil is returned only if some vertex of ViableBits is refined into an
// earlier cell than vertex n-1, i.e. is not in the orbit of n-1.

func c01fShowGens(gens [][]int) string {
	parts := make([]string, len(gens))
	for i, ge := range gens {
		parts[i] = showInts(ge)
	}
	return "[" + strings.Join(parts, " ") + "]"
}

func c01fReply(perm []int, orb []int, gens [][]int) string {
	if perm == nil {
		return "nil"
	}
	return "perm=" + showInts(perm) + " orbits=" + showInts(orb) + " gens=" + c01fShowGens(gens)
}

// c01fRawOrbits: smallest-representative array of the partition stored in a raw union-find (own walk; no library call).
func c01fRawOrbits(raw []int) ([]int, bool) {
	n := len(raw)
	root := make([]int, n)
	for v := 0; v < n; v++ {
		x, steps := v, 0
		for raw[x] >= 0 {
			if raw[x] >= n || steps > n {
				return nil, false
			}
			x = raw[x]
			steps++
		}
		root[v] = x
	}
	rep := make([]int, n)
	first := map[int]int{}
	for v := 0; v < n; v++ {
		if f, ok := first[root[v]]; ok {
			rep[v] = f
		} else {
			first[root[v]] = v
			rep[v] = v
		}
	}
	return rep, true
}

type c01fOut struct {
	perm []int
	raw  []int
	gens [][]int
}

func c01fCopy(perm []int, orb []int, gens [][]int) c01fOut {
	o := c01fOut{}
	if perm != nil {
		o.perm = append([]int{}, perm...)
	}
	o.raw = append([]int{}, orb...)
	for _, ge := range gens {
		o.gens = append(o.gens, append([]int{}, ge...))
	}
	return o
}

// c01fJudge evaluates the property on one result of a full call (no early exit).
func c01fJudge(g EG, classes [][]int, o c01fOut, bruteLimit int) string {
	n := g.N
	if !c01IsPerm(o.perm, n) {
		return fmt.Sprintf("returned %v, not a permutation of 0..%d", o.perm, n-1)
	}
	if n == 0 {
		return ""
	}
	if len(o.raw) != n {
		return fmt.Sprintf("orbit structure has %d entries for %d vertices", len(o.raw), n)
	}
	rep, ok := c01fRawOrbits(o.raw)
	if !ok {
		return fmt.Sprintf("orbit structure %v is not a union-find forest", o.raw)
	}
	_, msg := c02Check(g, classes, c02Res{perm: o.perm, orbits: rep, gens: o.gens}, bruteLimit)
	return msg
}

func c01fBruteLimit(n int) int {
	if n <= 12 {
		return 3000
	}
	if n <= 20 {
		return 400
	}
	return 60
}

func c01fRunCanon(args []string) Result {
	g, classes, ok := c02ParseCase(args)
	if !ok {
		return Result{Out: "bad-op"}
	}
	var o c01fOut
	out := guard(func() string {
		perm, orb, gens := graph.CanonicalIsomorphFull(g.Dense(), c02CopyClasses(classes))
		o = c01fCopy(perm, orb, gens)
		return c01fReply(perm, orb, gens)
	})
	tags := []string{fmt.Sprintf("n=%d", g.N)}
	if classes != nil {
		tags = append(tags, "classes")
	}
	if out == "panic" {
		return Result{Out: out, Oracle: "CanonicalIsomorphFull panicked", Tags: append(tags, "panic")}
	}
	oracle := c01fJudge(g, classes, o, c01fBruteLimit(g.N))
	if oracle == "" && g.N > 1 {
		// C01: the canonical graph is the same for class-preserving relabellings (alternately sparse / dense)
		cg := fromGraph(g.Dense().InducedSubgraph(o.perm))
		rr := rand.New(rand.NewSource(c02Seed(args)))
		for k := 0; k < 2 && oracle == ""; k++ {
			p := rr.Perm(g.N)
			inv := make([]int, g.N)
			for i, v := range p {
				inv[v] = i
			}
			h := g.Relabel(p)
			var hc [][]int
			for _, cl := range classes {
				c := make([]int, len(cl))
				for i, v := range cl {
					c[i] = inv[v]
				}
				sort.Ints(c)
				hc = append(hc, c)
			}
			rh, msg := c02Full(h, hc, k == 0)
			if msg != "" {
				oracle = fmt.Sprintf("relabelling %v: %s", p, msg)
			} else if !c01SameEG(cg, rh.canon) {
				oracle = fmt.Sprintf("canonical graph changes under the class-preserving relabelling %v: %s vs %s", p, showEG(cg), showEG(rh.canon))
			}
		}
	}
	if len(o.gens) > 0 && g.N >= 3 {
		tags = append(tags, "nontrivial", fmt.Sprintf("gens=%d", min(len(o.gens), 6)))
	}
	if g.N > 20 {
		tags = append(tags, "merge-phase")
	}
	return Result{Out: out, Oracle: oracle, Tags: tags}
}

func c01fRunViable(args []string) Result {
	if len(args) < 3 {
		return Result{Out: "bad-op"}
	}
	bits := uint(atoi(args[0]))
	g, classes, ok := c02ParseCase(args[1:])
	if !ok || classes != nil {
		return Result{Out: "bad-op"}
	}
	var o c01fOut
	out := guard(func() string {
		op := graph.NewOrderedPartition(g.N, len(g.E), nil)
		perm, orb, gens := graph.CanonicalIsomorphAllocated(g.N, len(g.E), c02Neighbours(g), op, graph.NewStorage(g.N, len(g.E)),
			&graph.CanonicalOptions{CheckViability: true, ViableBits: bits})
		o = c01fCopy(perm, orb, gens)
		return c01fReply(perm, orb, gens)
	})
	tags := []string{"viability"}
	if out == "panic" {
		return Result{Out: out, Oracle: "CanonicalIsomorphAllocated panicked", Tags: append(tags, "panic")}
	}
	oracle := ""
	auts, complete := c02BruteAut(g, nil, 20000)
	if o.perm == nil {
		tags = append(tags, "early-exit", "nontrivial")
		// documented contract: nil only if the vertex n-1 and some vertex of ViableBits are in different cells of the
		// equitable partition, hence in different orbits
		if g.N == 0 || len(g.E) == 0 {
			oracle = "nil result for a graph handled by the n == 0 / m == 0 shortcuts"
		} else if complete {
			orb := c02Orbits(g.N, auts)
			all := true
			for v := 0; v < g.N; v++ {
				if bits>>uint(v)&1 == 1 && orb[v] != orb[g.N-1] {
					all = false
				}
			}
			if all {
				oracle = fmt.Sprintf("early exit although every vertex of ViableBits %b is in the orbit of vertex %d", bits, g.N-1)
			}
		}
	} else {
		oracle = c01fJudge(g, nil, o, 3000)
		if g.N >= 3 {
			tags = append(tags, "nontrivial")
		}
	}
	return Result{Out: out, Oracle: oracle, Tags: tags}
}

func c01fRunHist(args []string) Result {
	parts := splitTok(args, "|")
	if len(parts) < 1 || len(parts[0]) != 2 {
		return Result{Out: "bad-op"}
	}
	N, M := atoi(parts[0][0]), atoi(parts[0][1])
	type cs struct {
		g  EG
		cl [][]int
	}
	var cases []cs
	for _, part := range parts[1:] {
		g, classes, ok := c02ParseCase(part)
		if !ok {
			return Result{Out: "bad-op"}
		}
		cases = append(cases, cs{g, classes})
	}
	storage := graph.NewStorage(N, M)
	op := graph.NewOrderedPartition(N, M, nil)
	oracle := ""
	var outs []string
	for idx, c := range cases {
		g, classes := c.g, c.cl
		out := guard(func() string {
			op.Reset(g.N, len(g.E), c02CopyClasses(classes))
			perm, orb, gens := graph.CanonicalIsomorphAllocated(g.N, len(g.E), c02Neighbours(g), op, storage, new(graph.CanonicalOptions))
			return c01fReply(perm, orb, gens)
		})
		outs = append(outs, out)
		if out == "panic" {
			if oracle == "" && g.N <= N && len(g.E) <= M {
				oracle = fmt.Sprintf("graph %d of the history (n=%d m=%d, capacity %d %d): panic", idx, g.N, len(g.E), N, M)
			}
			break
		}
		if oracle != "" {
			continue
		}
		var f c01fOut
		fresh := guard(func() string {
			perm, orb, gens := graph.CanonicalIsomorphFull(g.Dense(), c02CopyClasses(classes))
			f = c01fCopy(perm, orb, gens)
			return c01fReply(perm, orb, gens)
		})
		if fresh != out {
			oracle = fmt.Sprintf("graph %d of the history (n=%d m=%d classes %v): reused storage gives %s, a fresh call gives %s", idx, g.N, len(g.E), classes, out, fresh)
		} else if msg := c01fJudge(g, classes, f, 300); msg != "" {
			oracle = fmt.Sprintf("graph %d of the history: %s", idx, msg)
		}
	}
	tags := []string{"history"}
	if len(outs) >= 2 {
		tags = append(tags, "nontrivial")
	}
	return Result{Out: strings.Join(outs, " | "), Oracle: oracle, Tags: tags}
}

// ---------- generators ----------

func c01fGen(r *rand.Rand, tier string, emit func(string)) {
	thorough := tier == "thorough"
	put := func(g EG, classes [][]int) {
		emit("canonf " + g.Tokens() + c02ClassToks(classes))
	}
	// a class is a set: sometimes list its vertices in a random order
	unsort := func(classes [][]int) [][]int {
		out := c02CopyClasses(classes)
		for _, b := range out {
			b := b
			r.Shuffle(len(b), func(i, j int) { b[i], b[j] = b[j], b[i] })
		}
		return out
	}
	// boundary: all labelled graphs n <= 4 (5 thorough); n <= 3 with every ordered partition into classes
	small := 4
	if thorough {
		small = 5
	}
	for n := 0; n <= small; n++ {
		var parts [][][]int
		if n <= 3 {
			parts = c02OrderedPartitions(n)
		}
		for mask := uint64(0); mask < 1<<uint(n*(n-1)/2); mask++ {
			g := fromMask(n, mask)
			put(g, nil)
			for _, p := range parts {
				put(g, p)
			}
		}
	}
	// n = 4, 5: every class under a relabelling with a sample of ordered partitions
	for n := 4; n <= 5; n++ {
		parts := c02OrderedPartitions(n)
		for _, g0 := range c01Classes(n) {
			g := g0.Relabel(r.Perm(n))
			for k := 0; k < 6; k++ {
				put(g, parts[r.Intn(len(parts))])
			}
		}
	}
	// n = 4: every class under a relabelling with every ordered partition (singleton-first classes, edgeless graphs with
	// classes, class partitions that are not equitable: the three repaired vertex-class defects), blocks sometimes unsorted
	{
		parts := c02OrderedPartitions(4)
		for _, g0 := range c01Classes(4) {
			g := g0.Relabel(r.Perm(4))
			for k, p := range parts {
				if k%3 == 0 {
					put(g, unsort(p))
				} else {
					put(g, p)
				}
			}
		}
	}
	// edgeless graphs and single edges with classes, n <= 9
	for n := 2; n <= 9; n++ {
		for k := 0; k < 6; k++ {
			cl := c02RandomClasses(r, n)
			put(EG{N: n}, cl)
			put(EG{N: n, E: [][2]int{{0, n - 1}}}, cl)
			put(EG{N: n}, [][]int{{n - 1}, func() []int {
				var rest []int
				for u := 0; u < n-1; u++ {
					rest = append(rest, u)
				}
				return rest
			}()})
		}
	}
	// all isomorphism classes, relabelled
	maxClass, reps := 7, 1
	if thorough {
		maxClass, reps = 8, 2
	}
	for n := 5; n <= maxClass; n++ {
		for _, g := range c01Classes(n) {
			for k := 0; k < reps; k++ {
				put(g.Relabel(r.Perm(n)), nil)
			}
		}
	}
	// the corpus witnesses and the graphs that visit the "equal to the first leaf" branch
	wr := 20
	if thorough {
		wr = 200
	}
	for _, w := range []string{"G|WW}K", "GhcqSK", "GQvc`S", "GEyrnO", "GLrTrW"} {
		g := c01Graph6(w)
		for i := 0; i < wr; i++ {
			put(g.Relabel(r.Perm(g.N)), nil)
		}
		put(c01Complement(g).Relabel(r.Perm(g.N)), nil)
	}
	// symmetric families: as they are, relabelled, one vertex individualised, random classes
	for _, f := range c01Families(thorough) {
		put(f.g, nil)
		for k := 0; k < 2; k++ {
			g := f.g.Relabel(r.Perm(f.g.N))
			put(g, nil)
			if k == 0 {
				v := r.Intn(g.N)
				var rest []int
				for u := 0; u < g.N; u++ {
					if u != v {
						rest = append(rest, u)
					}
				}
				put(g, [][]int{rest, {v}})
				put(g, [][]int{{v}, unsort([][]int{rest})[0]})
				put(g, c02RandomClasses(r, g.N))
			}
		}
	}
	// circulants
	maxCirc := 11
	if thorough {
		maxCirc = 14
	}
	for n := 5; n <= maxCirc; n++ {
		for conn := uint(0); conn < 1<<uint(n/2); conn++ {
			g := c01Circulant(n, conn).Relabel(r.Perm(n))
			put(g, nil)
			if conn%4 == 1 {
				put(g, c02RandomClasses(r, n))
			}
		}
	}
	// random graphs; every third one large (first cell > 20 vertices with counts >= 2: insertion blocks + symMerge;
	// n = 21, 41, 61 reach the one-element cases of symMerge at the top level)
	nr := 900
	if thorough {
		nr = 12000
	}
	dens := []float64{0.1, 0.2, 0.3, 0.5, 0.7, 0.85}
	for i := 0; i < nr; i++ {
		n := 4 + r.Intn(9)
		switch i % 9 {
		case 0:
			n = 21 + r.Intn(30)
		case 3:
			n = []int{21, 41, 61, 22, 42, 40, 39, 81}[r.Intn(8)]
		case 6:
			n = 13 + r.Intn(12)
		}
		g := randomEG(r, n, dens[r.Intn(len(dens))])
		if i%9 == 3 && n > 45 {
			g = randomEG(r, n, 0.08)
		}
		put(g, c02RandomClasses(r, g.N))
	}
	// regular-ish random graphs (unions of random Hamilton cycles): large equitable cells
	for i := 0; i < nr/6; i++ {
		n := 8 + 2*r.Intn(9)
		a := make([][]bool, n)
		for k := range a {
			a[k] = make([]bool, n)
		}
		for d := 0; d < 1+r.Intn(3); d++ {
			p := r.Perm(n)
			for k := 0; k < n; k++ {
				u, v := p[k], p[(k+1)%n]
				a[u][v], a[v][u] = true, true
			}
		}
		put(c01FromAdj(n, func(u, v int) bool { return a[u][v] }), nil)
	}
	// big cells split by a vertex class: K_{1,k} plus a random graph inside the leaves, trees with many leaves
	for i := 0; i < nr/10; i++ {
		k := 21 + r.Intn(25)
		g := randomEG(r, k, []float64{0.05, 0.1, 0.2}[r.Intn(3)])
		h := EG{N: k + 2, E: append([][2]int{}, g.E...)}
		for u := 0; u < k; u++ {
			if r.Intn(2) == 0 {
				h.E = append(h.E, [2]int{u, k})
			}
			if r.Intn(3) == 0 {
				h.E = append(h.E, [2]int{u, k + 1})
			}
		}
		put(h.norm().Relabel(r.Perm(h.N)), nil)
	}
}

func c01fGenViable(r *rand.Rand, tier string, emit func(string)) {
	nv := 400
	if tier == "thorough" {
		nv = 6000
	}
	emit("canonfv 1 1 0")
	emit("canonfv 3 2 1 0 1")
	emit("canonfv 1 2 0")
	for i := 0; i < nv; i++ {
		var g EG
		switch r.Intn(4) {
		case 0:
			g = namedEG(r, 12)
		case 1:
			cl := c01Classes(2 + r.Intn(6))
			g = cl[r.Intn(len(cl))]
		default:
			g = randomEG(r, 2+r.Intn(10), []float64{0.2, 0.4, 0.6, 0.8}[r.Intn(4)])
		}
		if g.N == 0 {
			continue
		}
		g = g.Relabel(r.Perm(g.N))
		var bits uint
		switch r.Intn(3) {
		case 0: // the use in the search: the vertices of minimum degree
			deg := make([]int, g.N)
			for _, e := range g.E {
				deg[e[0]]++
				deg[e[1]]++
			}
			md := deg[0]
			for _, d := range deg {
				if d < md {
					md = d
				}
			}
			for v, d := range deg {
				if d == md {
					bits |= 1 << uint(v)
				}
			}
		case 1:
			bits = uint(r.Intn(1 << uint(g.N)))
		default:
			bits = 1 << uint(r.Intn(g.N))
		}
		emit(fmt.Sprintf("canonfv %d %s", bits, g.Tokens()))
	}
}

func c01fGenHist(r *rand.Rand, tier string, emit func(string)) {
	nh := 300
	if tier == "thorough" {
		nh = 4000
	}
	dens := []float64{0.15, 0.3, 0.5, 0.7, 0.85}
	fam := c01Families(false)
	// generator slots filled by a larger graph, then graphs whose generators are found in the "equal to the first leaf"
	// branch (best leaf != first leaf): the slots must be re-sliced to the new n
	var branch []EG
	for _, w := range []string{"G|WW}K", "GhcqSK", "GQvc`S", "GEyrnO", "GLrTrW"} {
		branch = append(branch, c01Graph6(w))
	}
	for _, f := range fam {
		switch f.name {
		case "C6+2C3", "C8+2C4", "C9+3C3", "K33+prism3", "Q3+M8", "Q3+2K4", "M8+2K4", "prism4+M8", "C5+C4+C3", "C7+C3+C4":
			branch = append(branch, f.g)
		}
	}
	for i := 0; i < nh/4; i++ {
		f1, f2 := branch[r.Intn(len(branch))], branch[r.Intn(len(branch))]
		big := c01Cycles(max(f1.N, f2.N)/3+1+r.Intn(3), 3)
		gs := []EG{big.Relabel(r.Perm(big.N)), f1.Relabel(r.Perm(f1.N)), f2.Relabel(r.Perm(f2.N))}
		if r.Intn(3) == 0 {
			gs = append(gs, gs[1])
		}
		N, M := 0, 0
		for _, g := range gs {
			N, M = max(N, g.N), max(M, len(g.E))
		}
		var b strings.Builder
		fmt.Fprintf(&b, "histf %d %d", N+r.Intn(2), M+r.Intn(2))
		for _, g := range gs {
			b.WriteString(" | " + g.Tokens())
		}
		emit(b.String())
	}
	for i := 0; i < nh; i++ {
		k := 2 + r.Intn(6)
		var gs []EG
		var cs [][][]int
		N, M := 1, 0
		for j := 0; j < k; j++ {
			var g EG
			switch r.Intn(6) {
			case 0:
				g = randomEG(r, r.Intn(4), 0.5)
			case 1:
				g = namedEG(r, 14)
			case 2:
				g = fam[r.Intn(len(fam))].g
				if g.N > 20 {
					g = c01Circulant(5+r.Intn(10), uint(r.Intn(128)))
				}
			case 3: // disjoint unions of small cycles / complete graphs: many generators
				g = c01Cycles(1+r.Intn(4), 2+r.Intn(4))
			default:
				g = randomEG(r, 3+r.Intn(10), dens[r.Intn(len(dens))])
			}
			g = g.Relabel(r.Perm(g.N))
			var cl [][]int
			if r.Intn(3) == 0 {
				cl = c02RandomClasses(r, g.N)
			}
			gs, cs = append(gs, g), append(cs, cl)
			if g.N > N {
				N = g.N
			}
			if len(g.E) > M {
				M = len(g.E)
			}
		}
		N += r.Intn(3)
		M += r.Intn(3)
		if r.Intn(15) == 0 { // beyond the capacity: Reset panics as documented (the oracle does not object)
			if r.Intn(2) == 0 && N > 1 {
				N--
			} else if M > 0 {
				M--
			}
		}
		var b strings.Builder
		fmt.Fprintf(&b, "histf %d %d", N, M)
		for j := range gs {
			b.WriteString(" | " + gs[j].Tokens() + c02ClassToks(cs[j]))
		}
		emit(b.String())
	}
}

func init() {
	register(&Proto{Name: "canonf", Props: []string{"C01", "C02"}, Run: c01fRunCanon, Gen: c01fGen})
	register(&Proto{Name: "canonfv", Props: []string{"C01", "C02"}, Run: c01fRunViable, Gen: c01fGenViable})
	register(&Proto{Name: "histf", Props: []string{"C01", "C02"}, Run: c01fRunHist, Gen: c01fGenHist})
}

