package main

import (
	"fmt"
	"sort"
	"strconv"
	"strings"

	"github.com/Tom-Johnston/mamba/graph"
	"github.com/Tom-Johnston/mamba/graph/search"
)

// Helpers shared by the C03 and C04 protocol files (search iterator).
//
// A graph on nv vertices is written as the token  <mask>  (decimal), bit (v*(v-1)/2+u) set iff u<v adjacent
// (mamba's DenseGraph edge order); nv is known from the context.  Everything here reads graphs through IsEdge
// only, never through the DenseGraph fields (those are examined by c03WF alone).

func c03PairIndex(u, v int) uint { // u < v
	return uint(v*(v-1)/2 + u)
}

func c03MaskOf(g graph.Graph) uint64 {
	n := g.N()
	var m uint64
	for v := 0; v < n; v++ {
		for u := 0; u < v; u++ {
			if g.IsEdge(u, v) {
				m |= 1 << c03PairIndex(u, v)
			}
		}
	}
	return m
}

func c03Adj(n int, mask uint64) [][]bool {
	a := make([][]bool, n)
	for i := range a {
		a[i] = make([]bool, n)
	}
	for v := 0; v < n; v++ {
		for u := 0; u < v; u++ {
			if mask>>c03PairIndex(u, v)&1 == 1 {
				a[u][v], a[v][u] = true, true
			}
		}
	}
	return a
}

func c03Dense(n int, mask uint64) *graph.DenseGraph {
	return fromMask(n, mask).Dense()
}

// c03WF checks that a yielded *DenseGraph is a well-formed graph on n vertices (all fields consistent).
func c03WF(g *graph.DenseGraph, n int) string {
	if g == nil {
		return "nil graph"
	}
	if g.NumberOfVertices != n {
		return fmt.Sprintf("NumberOfVertices=%d, want %d", g.NumberOfVertices, n)
	}
	if len(g.Edges) != n*(n-1)/2 {
		return fmt.Sprintf("len(Edges)=%d, want %d", len(g.Edges), n*(n-1)/2)
	}
	if len(g.DegreeSequence) != n {
		return fmt.Sprintf("len(DegreeSequence)=%d, want %d", len(g.DegreeSequence), n)
	}
	deg := make([]int, n)
	m := 0
	for v := 0; v < n; v++ {
		for u := 0; u < v; u++ {
			b := g.Edges[v*(v-1)/2+u]
			if b > 1 {
				return fmt.Sprintf("Edges[%d]=%d is not 0/1", v*(v-1)/2+u, b)
			}
			if b == 1 {
				deg[u]++
				deg[v]++
				m++
			}
			if (b == 1) != g.IsEdge(u, v) || g.IsEdge(u, v) != g.IsEdge(v, u) {
				return fmt.Sprintf("IsEdge(%d,%d) inconsistent with the edge array", u, v)
			}
		}
		if g.IsEdge(v, v) {
			return fmt.Sprintf("loop at %d", v)
		}
	}
	if m != g.NumberOfEdges {
		return fmt.Sprintf("NumberOfEdges=%d but %d edges present", g.NumberOfEdges, m)
	}
	for v := 0; v < n; v++ {
		if deg[v] != g.DegreeSequence[v] {
			return fmt.Sprintf("DegreeSequence[%d]=%d but degree is %d", v, g.DegreeSequence[v], deg[v])
		}
	}
	return ""
}

// ---- hereditary predicates (true = the graph HAS the property), written on adjacency matrices ----

type c03Pred struct {
	Name string
	Has  func(n int, a [][]bool) bool
}

func c03PredByName(name string) (c03Pred, bool) {
	switch {
	case name == "none":
		return c03Pred{name, func(n int, a [][]bool) bool { return true }}, true
	case strings.HasPrefix(name, "ord"): // at most k vertices
		k, err := strconv.Atoi(name[3:])
		if err != nil {
			return c03Pred{}, false
		}
		return c03Pred{name, func(n int, a [][]bool) bool { return n <= k }}, true
	case strings.HasPrefix(name, "deg"):
		d, err := strconv.Atoi(name[3:])
		if err != nil {
			return c03Pred{}, false
		}
		return c03Pred{name, func(n int, a [][]bool) bool {
			for v := 0; v < n; v++ {
				c := 0
				for u := 0; u < n; u++ {
					if a[v][u] {
						c++
					}
				}
				if c > d {
					return false
				}
			}
			return true
		}}, true
	case name == "tri":
		return c03Pred{name, func(n int, a [][]bool) bool {
			for i := 0; i < n; i++ {
				for j := 0; j < i; j++ {
					if !a[i][j] {
						continue
					}
					for k := 0; k < j; k++ {
						if a[i][k] && a[j][k] {
							return false
						}
					}
				}
			}
			return true
		}}, true
	case name == "k4":
		return c03Pred{name, func(n int, a [][]bool) bool {
			for i := 0; i < n; i++ {
				for j := 0; j < i; j++ {
					if !a[i][j] {
						continue
					}
					for k := 0; k < j; k++ {
						if !(a[i][k] && a[j][k]) {
							continue
						}
						for l := 0; l < k; l++ {
							if a[i][l] && a[j][l] && a[k][l] {
								return false
							}
						}
					}
				}
			}
			return true
		}}, true
	case name == "forest":
		return c03Pred{name, func(n int, a [][]bool) bool {
			// acyclic iff edges = n - components
			par := make([]int, n)
			for i := range par {
				par[i] = i
			}
			var find func(int) int
			find = func(x int) int {
				for par[x] != x {
					x = par[x]
				}
				return x
			}
			for v := 0; v < n; v++ {
				for u := 0; u < v; u++ {
					if a[u][v] {
						ru, rv := find(u), find(v)
						if ru == rv {
							return false
						}
						par[ru] = rv
					}
				}
			}
			return true
		}}, true
	case name == "bip":
		return c03Pred{name, func(n int, a [][]bool) bool {
			col := make([]int, n)
			for i := range col {
				col[i] = -1
			}
			for s := 0; s < n; s++ {
				if col[s] >= 0 {
					continue
				}
				col[s] = 0
				q := []int{s}
				for len(q) > 0 {
					v := q[0]
					q = q[1:]
					for u := 0; u < n; u++ {
						if a[v][u] {
							if col[u] < 0 {
								col[u] = 1 - col[v]
								q = append(q, u)
							} else if col[u] == col[v] {
								return false
							}
						}
					}
				}
			}
			return true
		}}, true
	}
	return c03Pred{}, false
}

// c03Funcs turns (predicate, place) into the (preprune, prune) pair of search.WithPruning.
// place: "pre" | "prune" | "both" | "-" (only for none).  A prune function returns true when the graph must be dropped.
func c03Funcs(p c03Pred, place string) (pre, pr func(*graph.DenseGraph) bool) {
	no := func(*graph.DenseGraph) bool { return false }
	f := func(g *graph.DenseGraph) bool {
		n := g.N()
		a := make([][]bool, n)
		for i := range a {
			a[i] = make([]bool, n)
		}
		for v := 0; v < n; v++ {
			for u := 0; u < v; u++ {
				if g.IsEdge(u, v) {
					a[u][v], a[v][u] = true, true
				}
			}
		}
		return !p.Has(n, a)
	}
	switch place {
	case "pre":
		return f, no
	case "prune":
		return no, f
	case "both":
		return f, f
	}
	return no, no
}

// c03Collect runs an iterator to exhaustion and returns the masks of the yielded graphs; wf gets the first
// well-formedness complaint.
func c03Collect(it *search.GraphIterator, n int, wf *string) []uint64 {
	out := []uint64{}
	for it.Next() {
		g := it.Value()
		if wf != nil && *wf == "" {
			if msg := c03WF(g, n); msg != "" {
				*wf = fmt.Sprintf("yielded value #%d is not a well-formed graph on %d vertices: %s", len(out), n, msg)
			}
		}
		out = append(out, c03MaskOf(g))
	}
	return out
}

func c03ShowMasks(ms []uint64) string {
	ss := make([]string, len(ms))
	for i, m := range ms {
		ss[i] = strconv.FormatUint(m, 10)
	}
	return strings.Join(ss, ",")
}

func c03ParseMasks(s string) []uint64 {
	if s == "" || s == "-" {
		return nil
	}
	parts := strings.Split(s, ",")
	out := make([]uint64, len(parts))
	for i, p := range parts {
		v, err := strconv.ParseUint(p, 10, 64)
		if err != nil {
			panic("bad mask " + p)
		}
		out[i] = v
	}
	return out
}

// ---- an isomorphism invariant that is complete, independent of the library and of the Lean checker ----
//
// c03Canon: the minimum, over all bijections, of the relabelled edge mask (brute force with a degree filter:
// only relabellings that list the vertices by non-decreasing degree are tried; the minimum over this
// isomorphism-invariant family of relabellings is still a complete invariant).  Memoised per (n, mask).

var c03CanonMemo = map[[2]uint64]uint64{}

func c03Canon(n int, mask uint64) uint64 {
	key := [2]uint64{uint64(n), mask}
	if v, ok := c03CanonMemo[key]; ok {
		return v
	}
	a := c03Adj(n, mask)
	deg := make([]int, n)
	for v := 0; v < n; v++ {
		for u := 0; u < n; u++ {
			if a[v][u] {
				deg[v]++
			}
		}
	}
	// positions sorted by degree: position i must receive a vertex of degree ds[i]
	ds := append([]int(nil), deg...)
	sort.Ints(ds)
	best := ^uint64(0)
	p := make([]int, n)
	used := make([]bool, n)
	var rec func(i int, cur uint64)
	rec = func(i int, cur uint64) {
		if i == n {
			if cur < best {
				best = cur
			}
			return
		}
		for v := 0; v < n; v++ {
			if used[v] || deg[v] != ds[i] {
				continue
			}
			c := cur
			for j := 0; j < i; j++ {
				if a[p[j]][v] {
					c |= 1 << c03PairIndex(j, i)
				}
			}
			// bits of vertex i are more significant than everything placed before: prune on the prefix
			if c > best {
				continue
			}
			used[v] = true
			p[i] = v
			rec(i+1, c)
			used[v] = false
		}
	}
	rec(0, 0)
	if n == 0 {
		best = 0
	}
	c03CanonMemo[key] = best
	return best
}

// c03BFCanon: plain minimum over all n! relabellings (the definition used by the Lean checker); small n only.
func c03BFCanon(n int, mask uint64) uint64 {
	a := c03Adj(n, mask)
	best := ^uint64(0)
	if n == 0 {
		return 0
	}
	p := make([]int, n)
	used := make([]bool, n)
	var rec func(i int, cur uint64)
	rec = func(i int, cur uint64) {
		if i == n {
			if cur < best {
				best = cur
			}
			return
		}
		for v := 0; v < n; v++ {
			if used[v] {
				continue
			}
			c := cur
			for j := 0; j < i; j++ {
				if a[p[j]][v] {
					c |= 1 << c03PairIndex(j, i)
				}
			}
			if c > best {
				continue
			}
			used[v] = true
			p[i] = v
			rec(i+1, c)
			used[v] = false
		}
	}
	rec(0, 0)
	return best
}

// number of isomorphism classes of graphs on n vertices (OEIS A000088)
var c03Known = []int{1, 1, 2, 4, 11, 34, 156, 1044, 12346, 274668, 12005168}
