module verifharness

go 1.21

require github.com/Tom-Johnston/mamba v0.0.0

replace github.com/Tom-Johnston/mamba => /repo
