package main

import (
	"errors"
	"fmt"
	"math"
	"math/rand"
	"strconv"
	"strings"

	"github.com/Tom-Johnston/mamba/tsp"
)

// Property C20 (tsp.LIB).  A case is `n` and the lower triangle of the weight table in row-major order
// (w(1,0) w(2,0) w(2,1) ...; n(n-1)/2 integers).  The weight function handed to LIB returns the table entry for
// 0 <= j < i < n and records every call; a call outside that domain is an oracle failure (and returns 777).
//
// Protocols (in replies a space is printed as '_' and a newline as '|'):
//
//	tsp  n w...                 reply: err=E wd=<distinct pairs weights was called on> out=<bytes received>
//	tspf n w... ; b z kind perm reply: err=E wd=.. d=<bytes received>
//	tspc n w...                 reply: c=[len ...]  lengths of the Write calls that start after the header.
//	                            INFORMATION ONLY, never generated: the partition into Write calls is not fixed by the property.
//
// tspf describes a failing writer by bytes, so that the reply does not depend on how LIB cuts its output into
// Write calls: the writer accepts exactly b bytes; the Write that would exceed that accepts the part that fits and
// fails with (part, error) [kind e; b at the start of a call: plain (0, err); inside a call: short count with error].
// z=1: an empty Write arriving when exactly b bytes have been accepted fails too (tabwriter ends every flush with an
// empty Write; for code satisfying the property the reply is the same as with z=0: the next non-empty Write fails
// instead, with the same b bytes delivered).  perm p: every later Write fails with (0, err); t: later Writes succeed
// (transient).  The reply (err flag, exactly the first b bytes delivered, distinct weight pairs) is therefore the
// same for every partition of the output into Write calls.
// Kind s (short count with a nil error, an io.Writer contract violation) is still accepted for manual experiments but
// never generated: its effect depends on the partition into Write calls.
//
// Oracle (on the implementation's own output, independent of the Lean model):
//   - weights only called with 0 <= j < i < n;
//   - if no Write failed: err == nil and the bytes parse as: the five header lines with DIMENSION: n, then n rows,
//     row i = the decimal weights w(i,0) .. w(i,i-1) followed by 0 (fields separated by blanks), then EOF, nothing else;
//   - if a Write returned a non-nil error: err != nil;
//   - (kind e) if err == nil the received bytes are the complete well formed output.

var c20ErrInjected = errors.New("c20: injected write failure")

const c20Sentinel = 777

type c20Writer struct {
	b         int  // capacity in bytes; < 0: never fails
	z         bool // empty Write at acc == b fails too
	kind      byte // 'e' or 's'
	perm      bool
	acc       int
	triggered bool
	trigEmpty bool
	out       []byte
	starts    []int // start offset (bytes accepted so far) of every Write call
	lens      []int
	failed    bool // some Write returned a non-nil error
}

func (w *c20Writer) Write(p []byte) (int, error) {
	w.starts = append(w.starts, w.acc)
	w.lens = append(w.lens, len(p))
	if w.triggered {
		if w.perm {
			if w.kind == 'e' {
				w.failed = true
				return 0, c20ErrInjected
			}
			return 0, nil
		}
		w.out = append(w.out, p...)
		w.acc += len(p)
		return len(p), nil
	}
	if w.b >= 0 && (w.acc+len(p) > w.b || (w.z && len(p) == 0 && w.acc == w.b)) {
		w.triggered = true
		w.trigEmpty = len(p) == 0
		k := w.b - w.acc
		w.out = append(w.out, p[:k]...)
		w.acc += k
		if w.kind == 'e' {
			w.failed = true
			return k, c20ErrInjected
		}
		return k, nil
	}
	w.out = append(w.out, p...)
	w.acc += len(p)
	return len(p), nil
}

type c20Case struct {
	n      int
	tab    []int
	calls  [][2]int
	badDom string
}

func c20ParseCase(args []string) (*c20Case, bool) {
	if len(args) < 1 {
		return nil, false
	}
	n, err := strconv.Atoi(args[0])
	if err != nil || n < 0 {
		return nil, false
	}
	if len(args)-1 != n*(n-1)/2 {
		return nil, false
	}
	tab := make([]int, len(args)-1)
	for i, s := range args[1:] {
		v, err := strconv.Atoi(s)
		if err != nil {
			return nil, false
		}
		tab[i] = v
	}
	return &c20Case{n: n, tab: tab}, true
}

func (c *c20Case) weights(i, j int) int {
	c.calls = append(c.calls, [2]int{i, j})
	if 0 <= j && j < i && i < c.n {
		return c.tab[i*(i-1)/2+j]
	}
	if c.badDom == "" {
		c.badDom = fmt.Sprintf("weights called with (%d, %d), outside 0 <= j < i < %d", i, j, c.n)
	}
	return c20Sentinel
}

func (c *c20Case) distinct() int {
	seen := map[[2]int]bool{}
	for _, p := range c.calls {
		seen[p] = true
	}
	return len(seen)
}

func c20Esc(b []byte) string {
	var sb strings.Builder
	for _, ch := range b {
		switch ch {
		case ' ':
			sb.WriteByte('_')
		case '\n':
			sb.WriteByte('|')
		default:
			sb.WriteByte(ch)
		}
	}
	return sb.String()
}

func c20HeaderLen(n int) int {
	return len("TYPE: TSP\n") + len("DIMENSION: ") + len(strconv.Itoa(n)) + 1 +
		len("DISPLAY_DATA_TYPE: NO_DISPLAY\nEDGE_WEIGHT_TYPE: EXPLICIT\nEDGE_WEIGHT_FORMAT: LOWER_DIAG_ROW\nEDGE_WEIGHT_SECTION\n")
}

// c20Parse checks that out is a complete, well formed and faithful TSPLIB file for (n, tab); "" if so.
func c20Parse(out string, n int, tab []int) string {
	if !strings.HasSuffix(out, "\n") {
		return "output does not end with a newline"
	}
	lines := strings.Split(strings.TrimSuffix(out, "\n"), "\n")
	want := [][]string{{"TYPE:", "TSP"}, {"DIMENSION:", strconv.Itoa(n)}, {"DISPLAY_DATA_TYPE:", "NO_DISPLAY"},
		{"EDGE_WEIGHT_TYPE:", "EXPLICIT"}, {"EDGE_WEIGHT_FORMAT:", "LOWER_DIAG_ROW"}, {"EDGE_WEIGHT_SECTION"}}
	for i := 0; i < n; i++ {
		row := []string{}
		for j := 0; j < i; j++ {
			row = append(row, strconv.Itoa(tab[i*(i-1)/2+j]))
		}
		want = append(want, append(row, "0"))
	}
	want = append(want, []string{"EOF"})
	for i, w := range want {
		if i >= len(lines) {
			return fmt.Sprintf("output ends after %d lines, expected line %d to be %v", len(lines), i+1, w)
		}
		got := strings.Fields(lines[i])
		if len(got) != len(w) {
			return fmt.Sprintf("line %d is %q, expected the %d fields %v", i+1, lines[i], len(w), w)
		}
		for k := range w {
			if got[k] != w[k] {
				return fmt.Sprintf("line %d is %q, expected the fields %v", i+1, lines[i], w)
			}
		}
	}
	if len(lines) != len(want) {
		return fmt.Sprintf("%d lines after EOF", len(lines)-len(want))
	}
	return ""
}

func c20Bool(b bool) int {
	if b {
		return 1
	}
	return 0
}

func c20Run(c *c20Case, w *c20Writer) (err error, panicked bool) {
	defer func() {
		if e := recover(); e != nil {
			panicked = true
		}
	}()
	err = tsp.LIB(w, c.n, c.weights)
	return
}

func init() {
	register(&Proto{
		Name:  "tsp",
		Props: []string{"C20"},
		Run: func(args []string) Result {
			c, ok := c20ParseCase(args)
			if !ok {
				return Result{Out: "bad-op"}
			}
			w := &c20Writer{b: -1, kind: 'e'}
			err, pan := c20Run(c, w)
			if pan {
				return Result{Out: "panic", Oracle: "LIB panicked", Tags: []string{"panic"}}
			}
			oracle := c.badDom
			if oracle == "" && err != nil {
				oracle = fmt.Sprintf("no Write failed but LIB returned the error %q", err)
			}
			if oracle == "" {
				oracle = c20Parse(string(w.out), c.n, c.tab)
			}
			tags := []string{"exact"}
			if c.n >= 3 {
				tags = append(tags, "nontrivial")
			}
			if len(c.calls) == c.n*(c.n-1)/2 {
				tags = append(tags, "weights-called-once-each")
			}
			return Result{Out: fmt.Sprintf("err=%d wd=%d out=%s", c20Bool(err != nil), c.distinct(), c20Esc(w.out)), Oracle: oracle, Tags: tags}
		},
		Gen: c20GenExact("tsp", 250, 4000),
	})
	register(&Proto{
		Name:  "tspc",
		Props: []string{"C20"},
		Run: func(args []string) Result {
			c, ok := c20ParseCase(args)
			if !ok {
				return Result{Out: "bad-op"}
			}
			w := &c20Writer{b: -1, kind: 'e'}
			_, pan := c20Run(c, w)
			if pan {
				return Result{Out: "panic", Oracle: "LIB panicked", Tags: []string{"panic"}}
			}
			h := c20HeaderLen(c.n)
			ls := []int{}
			for i, s := range w.starts {
				if s >= h {
					ls = append(ls, w.lens[i])
				}
			}
			tags := []string{"calls"}
			if c.n >= 3 {
				tags = append(tags, "nontrivial")
			}
			return Result{Out: "c=" + showInts(ls), Oracle: c.badDom, Tags: tags}
		},
		// Information only: the partition of the output into Write calls is not something the property fixes (a rewrite
		// that buffers the weight section and sends it with one Write is behaviour-preserving), so no tspc line is ever
		// generated and the protocol cannot cause a divergence verdict.  Use it by hand: echo "tspc 3 1 2 3" | vh run.
		Gen: func(r *rand.Rand, tier string, emit func(string)) {},
	})
	register(&Proto{
		Name:  "tspf",
		Props: []string{"C20"},
		Run: func(args []string) Result {
			parts := splitTok(args, ";")
			if len(parts) != 2 || len(parts[1]) != 4 {
				return Result{Out: "bad-op"}
			}
			c, ok := c20ParseCase(parts[0])
			f := parts[1]
			b, e := strconv.Atoi(f[0])
			if !ok || e != nil || b < 0 || (f[1] != "0" && f[1] != "1") || (f[2] != "e" && f[2] != "s") || (f[3] != "p" && f[3] != "t") {
				return Result{Out: "bad-op"}
			}
			w := &c20Writer{b: b, z: f[1] == "1", kind: f[2][0], perm: f[3] == "p"}
			err, pan := c20Run(c, w)
			if pan {
				return Result{Out: "panic", Oracle: "LIB panicked", Tags: []string{"panic"}}
			}
			oracle := c.badDom
			if oracle == "" && w.failed && err == nil {
				oracle = fmt.Sprintf("a Write failed (after %d bytes) but LIB returned nil; %d bytes were delivered", b, len(w.out))
			}
			if oracle == "" && !w.triggered && err != nil {
				oracle = fmt.Sprintf("no Write failed but LIB returned the error %q", err)
			}
			if oracle == "" && err == nil && w.kind == 'e' {
				if msg := c20Parse(string(w.out), c.n, c.tab); msg != "" {
					oracle = "LIB returned nil but " + msg
				}
			}
			h := c20HeaderLen(c.n)
			tags := []string{"fault-" + f[2] + f[3]}
			switch {
			case !w.triggered:
				tags = append(tags, "fault-not-reached")
			case w.trigEmpty:
				tags = append(tags, "fault-at-empty-write", "nontrivial")
			case b < h:
				tags = append(tags, "fault-in-header", "nontrivial")
			case len(w.starts) > 0 && w.triggered && b >= h && c20InTrailer(w, b):
				tags = append(tags, "fault-in-trailer", "nontrivial")
			default:
				tags = append(tags, "fault-in-weights", "nontrivial")
			}
			out := fmt.Sprintf("err=%d wd=%d", c20Bool(err != nil), c.distinct())
			if w.kind == 'e' || b >= h {
				out += " d=" + c20Esc(w.out)
			}
			return Result{Out: out, Oracle: oracle, Tags: tags}
		},
		Gen: c20GenFault,
	})
}

// the fault hit the last non-empty Write of a complete run ("EOF\n"): recognised by the delivered prefix
func c20InTrailer(w *c20Writer, b int) bool {
	// the trailer starts right after the last "\n" of the weight section, i.e. the delivered bytes minus a
	// proper prefix of "EOF\n" end with "\n" and the Write that failed had length 4 starting there.
	for i, s := range w.starts {
		if s <= b && b < s+w.lens[i] {
			return w.lens[i] == 4 && i == len(w.starts)-1 && i > 0 && w.lens[i-1] == 0
		}
	}
	return false
}

// ---- generators ----

func c20Weight(r *rand.Rand, style int) int {
	switch style {
	case 0: // one digit, non-negative
		return r.Intn(10)
	case 1: // small, signed
		return r.Intn(2001) - 1000
	case 2: // any number of digits
		d := 1 + r.Intn(19)
		v := int64(0)
		for k := 0; k < d; k++ {
			v = v*10 + int64(r.Intn(10))
			if v < 0 {
				v = math.MaxInt64
			}
		}
		if r.Intn(2) == 0 {
			v = -v
		}
		return int(v)
	case 3: // extremes
		ex := []int{math.MaxInt64, math.MinInt64, 0, -1, 1, 999999999999999999, 1000000000000000000, -1000000000000000000, 99999999, 100000000, -9999999, -10000000}
		return ex[r.Intn(len(ex))]
	default: // mixture
		return c20Weight(r, r.Intn(4))
	}
}

func c20Table(r *rand.Rand, n, style int) string {
	var sb strings.Builder
	sb.WriteString(strconv.Itoa(n))
	for k := 0; k < n*(n-1)/2; k++ {
		sb.WriteByte(' ')
		sb.WriteString(strconv.Itoa(c20Weight(r, style)))
	}
	return sb.String()
}

func c20GenExact(name string, quick, thorough int) func(r *rand.Rand, tier string, emit func(string)) {
	return func(r *rand.Rand, tier string, emit func(string)) {
		cases := quick
		if tier == "thorough" {
			cases = thorough
		}
		emit(name + " 0")
		emit(name + " 1")
		emit(name + " 2 5")
		emit(name + " 2 -9223372036854775808")
		emit(name + " 3 9223372036854775807 -1 0")
		emit(name + " 4 1 22 333 4444 55555 666666")
		emit(name + " 4 123456789 1 1 1 1 1") // padding of 8 and more
		emit(name + " 4 12345678 1 1 1 1 1")
		emit(name + " 4 1234567 1 1 1 1 1")
		emit(name + " 3 1 12345678901234567 1") // padding of 16/17
		emit(name + " 3 1 1234567890123456 1")
		for _, n := range []int{9, 10, 11, 99, 100, 101} { // DIMENSION with 1, 2, 3 digits
			if n > 40 && name == "tspc" {
				continue
			}
			emit(name + " " + c20Table(r, n, 0))
		}
		for c := 0; c < cases; c++ {
			n := r.Intn(13)
			if c%5 == 0 {
				n = r.Intn(41)
			}
			emit(name + " " + c20Table(r, n, r.Intn(5)))
		}
		// larger dimensions around powers of two (block / buffer boundaries such as 128, 256), exact bytes only
		if name == "tsp" {
			big := []int{127, 128, 129, 130 + r.Intn(30)} // the Lean tabwriter model is super-linear: ~2 s at n = 129, ~140 s at n = 257
			if tier == "thorough" {
				big = append(big, 192+r.Intn(40), 256, 257)
			}
			for _, n := range big {
				emit(name + " " + c20Table(r, n, r.Intn(2)))
			}
		}
	}
}

// total length of the fault-free output, computed from the format definition (not by running anything)
func c20TotalLen(n int, tab []int) int {
	t := c20HeaderLen(n) + 4
	for j := 0; j < n; j++ {
		wd := 1 // the diagonal "0"
		for i := j + 1; i < n; i++ {
			if l := len(strconv.Itoa(tab[i*(i-1)/2+j])); l > wd {
				wd = l
			}
		}
		t += (wd + 1) * (n - j)
	}
	return t + n
}

func c20GenFault(r *rand.Rand, tier string, emit func(string)) {
	sweep := func(tabline string, kinds []string) {
		c, _ := c20ParseCase(strings.Fields(tabline))
		total := c20TotalLen(c.n, c.tab)
		for b := 0; b <= total; b++ {
			for _, k := range kinds {
				emit(fmt.Sprintf("tspf %s ; %d 0 %s", tabline, b, k))
			}
		}
		// the empty Write that ends the flush sits right before "EOF\n"; z=1 one byte around it as well
		for _, b := range []int{total - 5, total - 4, total - 3, c20HeaderLen(c.n)} {
			if b >= 0 {
				emit(fmt.Sprintf("tspf %s ; %d 1 e t", tabline, b))
				emit(fmt.Sprintf("tspf %s ; %d 1 e p", tabline, b))
			}
		}
	}
	// Only kind e is generated: a short count with a nil error (kind s) is a contract-violating writer whose effect
	// depends on how the output is cut into Write calls, which the property does not fix.
	all := []string{"e t", "e p"}
	// exhaustive over every byte position (hence every Write call, with and without a short count) for n <= 8
	for n := 0; n <= 8; n++ {
		sweep(c20Table(r, n, 0), all)
	}
	for n := 2; n <= 4; n++ {
		sweep(c20Table(r, n, 4), all)
	}
	sweep("3 1 12345678901234567 -1", all)
	rounds, random := 0, 600
	if tier == "thorough" {
		rounds, random = 3, 20000
	}
	for k := 0; k < rounds; k++ {
		for n := 0; n <= 8; n++ {
			sweep(c20Table(r, n, 1+k), all)
		}
	}
	for c := 0; c < random; c++ {
		n := r.Intn(13)
		if c%10 == 0 {
			n = r.Intn(31)
		}
		tl := c20Table(r, n, r.Intn(5))
		cs, _ := c20ParseCase(strings.Fields(tl))
		total := c20TotalLen(cs.n, cs.tab)
		b := r.Intn(total + 2)
		if r.Intn(3) == 0 {
			b = c20HeaderLen(n) + r.Intn(total-c20HeaderLen(n)+1)
		}
		emit(fmt.Sprintf("tspf %s ; %d %d %s", tl, b, r.Intn(2), all[r.Intn(len(all))]))
	}
}
