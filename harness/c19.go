package main

import (
	"context"
	"crypto/sha1"
	"encoding/hex"
	"encoding/json"
	"fmt"
	"math/rand"
	"os"
	"os/exec"
	"path/filepath"
	"sort"
	"strings"
	"sync"
	"time"

	"github.com/Tom-Johnston/mamba/comb"
	"github.com/Tom-Johnston/mamba/dawg"
	"github.com/Tom-Johnston/mamba/disjoint"
	"github.com/Tom-Johnston/mamba/graph"
	"github.com/Tom-Johnston/mamba/graph/search"
	"github.com/Tom-Johnston/mamba/ints"
	"github.com/Tom-Johnston/mamba/itertools"
	"github.com/Tom-Johnston/mamba/sortints"
)

// Protocol c19 (property C19): one line describes a concurrent scenario.
//
//	c19 shards <n> <m>                 n<=8, 1<=m<=8 : the m shards search.All(n,a,m) in m goroutines
//	c19 canon  <k> <n> <reps> <seed>   k goroutines, each labels <reps> graphs on <=n vertices with its OWN storage,
//	                                   and all of them label the same SHARED graphs with CanonicalIsomorph
//	c19 iters  <k> <size>              k goroutines, each drives one fresh iterator of EVERY kind of itertools
//	c19 dawg   <k> <words> <seed>      one shared finished Dawg; Lookup / NumberOfWords / Search with own searchers
//	c19 gobs   <k> <kind> <n> <seed>   observers + read-only algorithms on one shared graph (dense|sparse|compl|induced)
//	c19 comb   <k> <seed>              comb.Coeff / CoeffUint64 / Coeffs / Rank / Unrank
//	c19 sints  <k> <seed>              non-mutating sortints / ints functions on shared slices
//	c19 build  <k> <seed>              separate builders: dawg.Builder, SortedInts.Add/Remove/Union, graph editing, disjoint.Set
//
// k in 1..16. Reply (the model side can only know the shape): "ok <kind> k=<k>" and for shards additionally the
// number of graphs found by all shards together (the model side knows the number of isomorphism classes).
// Oracle (model independent): every goroutine's result when all run concurrently (c19Rounds times, released by a
// barrier) equals the result of the same work run alone beforehand; for shards additionally the graphs of all
// shards are pairwise non-isomorphic. A panic inside a goroutine is a result like any other.
//
// The same binary built with `go build -race` is run by c19_race.sh on a fixed scenario list; there the Go race
// detector is the oracle for "no data races".

const c19MaxK = 16

// c19Rounds: how often the goroutines are released together per scenario (more rounds = more schedules seen)
const c19Rounds = 6

func c19Digest(s string) string {
	h := sha1.Sum([]byte(s))
	return hex.EncodeToString(h[:8])
}

// c19Guard runs work and turns a panic into a result string.
func c19Guard(work func() string) (out string) {
	defer func() {
		if e := recover(); e != nil {
			out = fmt.Sprintf("panic: %v", e)
		}
	}()
	return work()
}

// c19RunAll releases work(0..k-1) together once on the cold process (lazily filled caches / memo tables are
// empty: every scenario runs in a fresh child process), then runs each work(t) alone, then releases them
// together c19Rounds more times; every concurrent result must equal the result of running alone.
func c19RunAll(k int, work func(t int) string) (oracle string) {
	together := func() []string {
		conc := make([]string, k)
		var wg sync.WaitGroup
		start := make(chan struct{})
		for t := 0; t < k; t++ {
			wg.Add(1)
			go func(t int) {
				defer wg.Done()
				<-start
				conc[t] = c19Guard(func() string { return work(t) })
			}(t)
		}
		close(start)
		wg.Wait()
		return conc
	}
	cold := together()
	alone := make([]string, k)
	for t := 0; t < k; t++ {
		t := t
		alone[t] = c19Guard(func() string { return work(t) })
	}
	for round := 0; round <= c19Rounds; round++ {
		conc := cold
		if round > 0 {
			conc = together()
		}
		for t := 0; t < k; t++ {
			if conc[t] != alone[t] {
				return fmt.Sprintf("goroutine %d of %d obtained a different result when run concurrently (round %d): digest %s, alone %s; first difference at byte %d: concurrent %q alone %q",
					t, k, round, c19Digest(conc[t]), c19Digest(alone[t]), c19FirstDiff(conc[t], alone[t]), c19Around(conc[t], alone[t]), c19Around(alone[t], conc[t]))
			}
		}
	}
	// the work run alone again must still give the same results (a "query" that changed the shared value shows here)
	for t := 0; t < k; t++ {
		t := t
		if again := c19Guard(func() string { return work(t) }); again != alone[t] {
			return fmt.Sprintf("goroutine %d's work gives a different result after the others ran (a shared value was changed): %q vs %q", t, c19Around(again, alone[t]), c19Around(alone[t], again))
		}
	}
	return ""
}

func c19FirstDiff(a, b string) int {
	i := 0
	for i < len(a) && i < len(b) && a[i] == b[i] {
		i++
	}
	return i
}

func c19Around(a, b string) string {
	i := c19FirstDiff(a, b)
	lo, hi := i-20, i+40
	if lo < 0 {
		lo = 0
	}
	if hi > len(a) {
		hi = len(a)
	}
	return a[lo:hi]
}

// ---- scenarios ---------------------------------------------------------------------------------------

func c19Shards(n, m int) (total int, oracle string) {
	shard := func(a int) string {
		var b strings.Builder
		it := search.All(n, a, m)
		for it.Next() {
			g := it.Value()
			b.WriteString(graph.Graph6Encode(g))
			b.WriteByte(' ')
		}
		return b.String()
	}
	if o := c19RunAll(m, shard); o != "" {
		return 0, o
	}
	// partition: the graphs of all shards together are pairwise non-isomorphic (total is compared by the model side)
	seen := map[string]int{}
	for a := 0; a < m; a++ {
		for _, s := range strings.Fields(shard(a)) {
			g, err := graph.Graph6Decode(s)
			if err != nil {
				return 0, "shard produced an undecodable graph " + s
			}
			var canon string
			if g.N() == 0 {
				canon = "empty"
			} else {
				canon = graph.Graph6Encode(g.InducedSubgraph(graph.CanonicalIsomorph(g)))
			}
			if b, dup := seen[canon]; dup {
				return 0, fmt.Sprintf("shards %d and %d of %d both produce a graph isomorphic to %s", b, a, m, s)
			}
			seen[canon] = a
			total++
		}
	}
	return total, ""
}

func c19RandDense(r *rand.Rand, n int) *graph.DenseGraph {
	g := graph.NewDense(n, nil)
	p := r.Float64()
	for j := 0; j < n; j++ {
		for i := 0; i < j; i++ {
			if r.Float64() < p {
				g.AddEdge(i, j)
			}
		}
	}
	return g
}

func c19Neigh(g graph.Graph) [][]int {
	nb := make([][]int, g.N())
	for i := range nb {
		nb[i] = g.Neighbours(i)
	}
	return nb
}

func c19Canon(k, n, reps int, seed int64) string {
	r := rand.New(rand.NewSource(seed))
	shared := make([]*graph.DenseGraph, reps)
	for i := range shared {
		shared[i] = c19RandDense(r, 1+r.Intn(n))
	}
	own := make([][]*graph.DenseGraph, k)
	for t := range own {
		own[t] = make([]*graph.DenseGraph, reps)
		for i := range own[t] {
			own[t][i] = c19RandDense(r, 1+r.Intn(n))
		}
	}
	return c19RunAll(k, func(t int) string {
		var b strings.Builder
		// own storage, reused over all graphs of this goroutine
		storage := graph.NewStorage(n, n*(n-1)/2)
		op := graph.NewOrderedPartition(n, n*(n-1)/2, nil)
		opts := new(graph.CanonicalOptions)
		for _, g := range own[t] {
			op.Reset(g.N(), g.M(), nil)
			perm, orbits, gens := graph.CanonicalIsomorphAllocated(g.N(), g.M(), c19Neigh(g), op, storage, opts)
			fmt.Fprintf(&b, "%v %v %v;", perm, orbits.SmallestRep(), gens)
		}
		// shared graphs, storage allocated by the library
		for _, g := range shared {
			perm, orbits, gens := graph.CanonicalIsomorphFull(g, nil)
			fmt.Fprintf(&b, "%v %v %v;", graph.CanonicalIsomorph(g), perm, len(gens))
			if orbits != nil {
				fmt.Fprintf(&b, "%v;", orbits.SmallestRep())
			}
		}
		return b.String()
	})
}

func c19Iters(k, size int) string {
	freq := make([]int, size)
	dims := make([]int, size)
	for i := range freq {
		freq[i] = 1 + i%2
		dims[i] = 1 + i%3
	}
	return c19RunAll(k, func(t int) string {
		var b strings.Builder
		w := func(name string, next func() bool, value func() interface{}) {
			b.WriteString(name + ":")
			for c := 0; next() && c < 100000; c++ {
				fmt.Fprintf(&b, "%v", value())
			}
			b.WriteByte('\n')
		}
		n := size
		{
			it := itertools.Combinations(n+2, n/2+1)
			w("comb", it.Next, func() interface{} { return it.Value() })
		}
		{
			it := itertools.CombinationsColex(n+2, n/2+1)
			w("colex", it.Next, func() interface{} { return it.Value() })
		}
		{
			m := append([]int(nil), freq...) // the iterator keeps m: every goroutine hands over its own copy
			it := itertools.MultisetCombinations(m, n/2+1)
			w("mcomb", it.Next, func() interface{} { return fmt.Sprint(it.Value(), it.FreqValue()) })
		}
		{
			it := itertools.Partitions(n)
			w("part", it.Next, func() interface{} { return it.Value() })
		}
		{
			it := itertools.IntegerPartitions(2 * n)
			w("ipart", it.Next, func() interface{} { return it.Value() })
		}
		{
			it := itertools.Permutations(n)
			w("perm", it.Next, func() interface{} { return it.Value() })
		}
		{
			it := itertools.LexicographicPermutations(n)
			w("lperm", it.Next, func() interface{} { return it.Value() })
		}
		{
			it := itertools.MultisetPermutations(freq) // shared input slice: it is copied
			w("mperm", it.Next, func() interface{} { return it.Value() })
		}
		{
			it := itertools.TopologicalSorts(n, func(i, j int) bool { return j == i+2 })
			w("topo", it.Next, func() interface{} { return fmt.Sprint(it.Value(), it.InverseValue()) })
		}
		{
			it := itertools.RestrictedPrefixPermutations(n, func(a []int) bool { return len(a) < 2 || a[len(a)-1] != a[len(a)-2]+1 })
			w("rpperm", it.Next, func() interface{} { return it.Value() })
		}
		{
			it := itertools.PermutationsByPattern(n, func(a []int) bool { return len(a) < 2 || a[0] < a[len(a)-1] || len(a) == 2 })
			w("pperm", it.Next, func() interface{} { return it.Value() })
		}
		{
			it := itertools.Product(dims...) // shared input slice: it is copied
			w("prod", it.Next, func() interface{} { return it.Value() })
		}
		{
			it := itertools.RestrictedPrefixProduct(func(a []int) bool { return ints.Sum(a) <= n }, dims...)
			w("rpprod", it.Next, func() interface{} { return it.Value() })
		}
		return b.String()
	})
}

func c19Words(r *rand.Rand, nwords int) [][]byte {
	set := map[string]bool{}
	alpha := "abcd"
	for len(set) < nwords {
		l := r.Intn(6)
		w := make([]byte, l)
		for i := range w {
			w[i] = alpha[r.Intn(len(alpha))]
		}
		set[string(w)] = true
		if len(set) >= 1365 { // all words of length <= 5 over 4 letters
			break
		}
	}
	ws := make([]string, 0, len(set))
	for w := range set {
		ws = append(ws, w)
	}
	sort.Strings(ws)
	out := make([][]byte, len(ws))
	for i, w := range ws {
		out[i] = []byte(w)
	}
	return out
}

func c19Dawg(k, nwords int, seed int64) string {
	r := rand.New(rand.NewSource(seed))
	words := c19Words(r, nwords)
	d, err := dawg.New(words)
	if err != nil {
		return "" // cannot happen: words are sorted and distinct; nothing to check
	}
	probes := make([][]byte, 40)
	for i := range probes {
		if i%2 == 0 && len(words) > 0 {
			probes[i] = words[r.Intn(len(words))]
		} else {
			probes[i] = c19Words(r, 1)[0]
		}
	}
	patterns := [][]byte{[]byte("a?"), []byte("??"), []byte("?b?"), []byte("????"), []byte(""), []byte("ab?d?")}
	anagrams := [][]byte{[]byte("ab"), []byte("a?b"), []byte("dcba"), []byte("??"), []byte("aab?")}
	return c19RunAll(k, func(t int) string {
		var b strings.Builder
		for rep := 0; rep < 3; rep++ {
			fmt.Fprintf(&b, "n=%d;", d.NumberOfWords())
			for _, p := range probes { // the probe words are shared and only read
				i, ok := d.Lookup(p)
				fmt.Fprintf(&b, "%d%v,", i, ok)
			}
			for i := range patterns {
				// every goroutine builds its own searchers from its own copies of the patterns
				ps := dawg.NewPatternSearcher(append([]byte(nil), patterns[(i+t)%len(patterns)]...), '?')
				sol, ids := d.Search(ps)
				fmt.Fprintf(&b, "%q%v;", sol, ids)
			}
			for i := range anagrams {
				as := dawg.NewAnagramSearcher(append([]byte(nil), anagrams[(i+t)%len(anagrams)]...), '?')
				sol, ids := d.Search(as)
				fmt.Fprintf(&b, "%q%v;", sol, ids)
				ps := dawg.NewPatternSearcher([]byte("???"), '?')
				as2 := dawg.NewAnagramSearcher(append([]byte(nil), anagrams[(i+t)%len(anagrams)]...), '?')
				sol, ids = d.Search(ps, as2)
				fmt.Fprintf(&b, "%q%v;", sol, ids)
			}
		}
		enc, err := d.GobEncode()
		fmt.Fprintf(&b, "%x %v", sha1.Sum(enc), err)
		return b.String()
	})
}

func c19SharedGraph(kind string, n int, seed int64) graph.Graph {
	r := rand.New(rand.NewSource(seed))
	d := c19RandDense(r, n)
	switch kind {
	case "dense":
		return d
	case "sparse":
		nb := make([]sortints.SortedInts, n)
		for i := range nb {
			nb[i] = d.Neighbours(i)
		}
		return graph.NewSparse(n, nb)
	case "compl":
		return graph.Complement(d)
	case "induced":
		V := r.Perm(n)
		V = V[:(n+1)/2]
		return graph.InducedSubgraph(d, V)
	}
	return nil
}

func c19Gobs(k int, kind string, n int, seed int64) string {
	g := c19SharedGraph(kind, n, seed)
	return c19RunAll(k, func(t int) string {
		var b strings.Builder
		for rep := 0; rep < 3; rep++ {
			nn := g.N()
			fmt.Fprintf(&b, "%d %d %v;", nn, g.M(), g.Degrees())
			for i := 0; i < nn; i++ {
				nb := g.Neighbours(i)
				fmt.Fprintf(&b, "%v", nb)
				for j := 0; j < nn; j++ {
					if g.IsEdge(i, j) {
						b.WriteByte('1')
					} else {
						b.WriteByte('0')
					}
				}
			}
		}
		// read-only algorithms on the shared graph
		fmt.Fprintf(&b, "|%v|%s|%s|%d", graph.CanonicalIsomorph(g), graph.Graph6Encode(g), graph.Sparse6Encode(g), graph.CliqueNumber(g))
		c := make(chan []int) // the channel belongs to this goroutine; AllMaximalCliques closes it
		go func() {
			defer func() {
				if e := recover(); e != nil {
					func() { defer func() { recover() }(); close(c) }()
				}
			}()
			graph.AllMaximalCliques(g, c)
		}()
		cl := []string{}
		for q := range c {
			q = append([]int(nil), q...)
			sort.Ints(q)
			cl = append(cl, fmt.Sprint(q))
		}
		sort.Strings(cl)
		fmt.Fprintf(&b, "|%v", cl)
		return b.String()
	})
}

func c19Comb(k int, seed int64) string {
	r := rand.New(rand.NewSource(seed))
	combs := make([][]int, 30)
	for i := range combs {
		kk := 1 + r.Intn(6)
		c := r.Perm(20)[:kk]
		sort.Ints(c)
		combs[i] = c
	}
	return c19RunAll(k, func(t int) string {
		var b strings.Builder
		for n := 0; n <= 40; n++ {
			for kk := -1; kk <= n+1; kk++ {
				fmt.Fprintf(&b, "%d,", comb.Coeff(n, kk))
			}
		}
		for n := uint64(60); n < 70; n++ {
			for kk := uint64(0); kk < 12; kk++ {
				fmt.Fprintf(&b, "%d,", comb.CoeffUint64(n, kk))
			}
		}
		fmt.Fprintf(&b, "%v", comb.Coeffs(12+t%3))
		for _, c := range combs { // shared, only read
			rk := comb.Rank(c)
			fmt.Fprintf(&b, "%d%v", rk, comb.Unrank(rk, len(c)))
		}
		b.WriteString(c19Guard(func() string { return fmt.Sprint(comb.Coeff(200, 100)) })) // panics: overflow
		return b.String()
	})
}

func c19Sints(k int, seed int64) string {
	r := rand.New(rand.NewSource(seed))
	sets := make([]sortints.SortedInts, 12)
	for i := range sets {
		x := r.Perm(24)[:r.Intn(16)]
		sets[i] = sortints.NewSortedInts(x...)
		// spare capacity behind the shared slices: an in-place writer would show
		sets[i] = append(make([]int, 0, len(sets[i])+8), sets[i]...)
	}
	return c19RunAll(k, func(t int) string {
		var b strings.Builder
		for i, a := range sets {
			bb := sets[(i+1+t)%len(sets)]
			fmt.Fprintf(&b, "%v%v%v%v%d%v%v%v;", sortints.Union(a, bb), sortints.Intersection(a, bb), sortints.SetMinus(a, bb), sortints.XOR(a, bb),
				sortints.IntersectionSize(a, bb), sortints.ContainsSorted(a, bb), sortints.ContainsSingle(a, i), sortints.Complement(24, a))
			fmt.Fprintf(&b, "%v%v%v%d%d%d%v;", ints.Equal(a, bb), ints.HasPrefix(a, bb), ints.Compare(a, bb), ints.Max(append([]int{0}, a...)), ints.Min(append([]int{0}, a...)), ints.Sum(a), sortints.NewSortedInts(a...))
			// a goroutine-owned set built from the shared ones
			mine := sortints.NewSortedInts(a...)
			mine.Add(bb...)
			mine.Remove(i)
			mine.Union(bb)
			fmt.Fprintf(&b, "%v", mine)
		}
		return b.String()
	})
}

func c19Build(k int, seed int64) string {
	r := rand.New(rand.NewSource(seed))
	words := c19Words(r, 60)
	ops := make([][3]int, 60)
	for i := range ops {
		ops[i] = [3]int{r.Intn(4), r.Intn(7), r.Intn(7)}
	}
	return c19RunAll(k, func(t int) string {
		var b strings.Builder
		// dawg builder: every goroutine adds its own copies of a (rotating) subset of the words
		var db dawg.Builder
		for i, w := range words {
			if (i+t)%3 == 0 {
				continue
			}
			err := db.Add(append([]byte(nil), w...))
			fmt.Fprintf(&b, "%v", err == nil)
		}
		d, err := db.Finish()
		if err == nil {
			for _, w := range words {
				i, ok := d.Lookup(w)
				fmt.Fprintf(&b, "%d%v,", i, ok)
			}
			fmt.Fprintf(&b, "%d;", d.NumberOfWords())
		}
		// editable graphs
		for _, g := range []graph.EditableGraph{graph.NewDense(7, nil), graph.NewSparse(7, nil)} {
			for _, o := range ops {
				switch o[0] {
				case 0, 1:
					if o[1] != o[2] && o[1] < g.N() && o[2] < g.N() {
						g.AddEdge(o[1], o[2])
					}
				case 2:
					if o[1] != o[2] && o[1] < g.N() && o[2] < g.N() {
						g.RemoveEdge(o[1], o[2])
					}
				case 3:
					if g.N() > 3 && o[1] < g.N() && (o[2]+t)%5 == 0 {
						g.RemoveVertex(o[1])
						g.AddVertex([]int{0, 1})
					}
				}
			}
			fmt.Fprintf(&b, "%s;", graph.Graph6Encode(g))
		}
		// disjoint sets and sorted ints
		ds := disjoint.New(7)
		buf := make([]int, 8)
		s := sortints.NewSortedInts()
		for _, o := range ops {
			ds.Union(o[1], o[2])
			ds.UnionBuffered(o[2], (o[1]+t)%7, buf)
			s.Add(o[1]+t, o[2])
			s.Remove(o[0])
		}
		fmt.Fprintf(&b, "%v%v", ds.SmallestRep(), s)
		x := r2perm(20, seed+int64(t))
		ints.Sort(x)
		fmt.Fprintf(&b, "%v", x)
		return b.String()
	})
}

func r2perm(n int, seed int64) []int { return rand.New(rand.NewSource(seed)).Perm(n) }

// ---- protocol -----------------------------------------------------------------------------------------

func c19Int(s string, lo, hi int) (int, bool) {
	if len(s) == 0 || len(s) > 9 {
		return 0, false
	}
	v := 0
	for _, c := range []byte(s) {
		if c < '0' || c > '9' {
			return 0, false
		}
		v = v*10 + int(c-'0')
	}
	return v, v >= lo && v <= hi
}

// c19Run executes one scenario in a child process (the same binary, C19_INPROC=1): a scenario that kills the
// process ("fatal error: concurrent map writes", a deadlock) then becomes an oracle failure of that scenario
// instead of taking the whole run down; and when the binary was built with -race, a race report on the
// child's stderr becomes an oracle failure naming the scenario.
func c19Run(args []string) Result {
	if os.Getenv("C19_INPROC") != "" {
		return c19RunInProc(args)
	}
	dir, err := os.MkdirTemp("", "c19")
	if err != nil {
		return c19RunInProc(args)
	}
	defer os.RemoveAll(dir)
	orc, st := filepath.Join(dir, "oracle"), filepath.Join(dir, "stats")
	ctx, cancel := context.WithTimeout(context.Background(), 120*time.Second)
	defer cancel()
	cmd := exec.CommandContext(ctx, os.Args[0], "run", "-oracle", orc, "-stats", st)
	cmd.Env = append(os.Environ(), "C19_INPROC=1")
	cmd.Stdin = strings.NewReader("c19 " + strings.Join(args, " ") + "\n")
	var stdout, stderr strings.Builder
	cmd.Stdout, cmd.Stderr = &stdout, &stderr
	runErr := cmd.Run()
	res := Result{Out: strings.TrimSuffix(stdout.String(), "\n")}
	if b, err := os.ReadFile(orc); err == nil && len(b) > 0 {
		if i := strings.IndexByte(string(b), '\t'); i >= 0 {
			res.Oracle = strings.TrimSpace(string(b)[i+1:])
		}
	}
	if b, err := os.ReadFile(st); err == nil {
		m := map[string]int{}
		if json.Unmarshal(b, &m) == nil {
			for t := range m {
				res.Tags = append(res.Tags, t)
			}
			sort.Strings(res.Tags)
		}
	}
	errText := stderr.String()
	if i := strings.Index(errText, "WARNING: DATA RACE"); i >= 0 {
		os.Stderr.WriteString(errText)
		rep := strings.Split(errText[i:], "\n")
		keep := []string{}
		for _, l := range rep {
			if strings.TrimSpace(l) != "" && len(keep) < 12 {
				keep = append(keep, strings.TrimSpace(l))
			}
		}
		if res.Oracle == "" {
			res.Oracle = "the race detector reported a data race: " + strings.Join(keep, " | ")
		}
		res.Tags = append(res.Tags, "race")
	} else if runErr != nil && !strings.Contains(runErr.Error(), "exit status 66") {
		tail := errText
		if i := strings.Index(tail, "fatal error:"); i >= 0 {
			tail = tail[i:]
		}
		if len(tail) > 500 {
			tail = tail[:500]
		}
		res.Out = "crash"
		if res.Oracle == "" {
			res.Oracle = "the process running the scenario died (" + runErr.Error() + "): " + strings.Join(strings.Fields(tail), " ")
		}
		res.Tags = append(res.Tags, "crash")
	}
	return res
}

func c19RunInProc(args []string) Result {
	bad := Result{Out: "bad-op", Tags: []string{"bad-op"}}
	if len(args) == 0 {
		return bad
	}
	num := func(i, lo, hi int) (int, bool) {
		if i >= len(args) {
			return 0, false
		}
		return c19Int(args[i], lo, hi)
	}
	kind := args[0]
	oracle := ""
	out := ""
	tags := []string{kind}
	switch kind {
	case "shards":
		n, ok1 := num(1, 0, 8)
		m, ok2 := num(2, 1, 8)
		if !ok1 || !ok2 || len(args) != 3 {
			return bad
		}
		total, o := c19Shards(n, m)
		oracle = o
		out = fmt.Sprintf("ok shards n=%d m=%d total=%d", n, m, total)
		if m > 1 && n >= 3 {
			tags = append(tags, "nontrivial")
		}
	case "canon":
		k, ok1 := num(1, 1, c19MaxK)
		n, ok2 := num(2, 1, 12)
		reps, ok3 := num(3, 1, 50)
		seed, ok4 := num(4, 0, 999999999)
		if !ok1 || !ok2 || !ok3 || !ok4 || len(args) != 5 {
			return bad
		}
		oracle = c19Canon(k, n, reps, int64(seed))
		out = fmt.Sprintf("ok canon k=%d", k)
		if k > 1 {
			tags = append(tags, "nontrivial")
		}
	case "iters":
		k, ok1 := num(1, 1, c19MaxK)
		size, ok2 := num(2, 0, 6)
		if !ok1 || !ok2 || len(args) != 3 {
			return bad
		}
		oracle = c19Iters(k, size)
		out = fmt.Sprintf("ok iters k=%d", k)
		if k > 1 {
			tags = append(tags, "nontrivial")
		}
	case "dawg":
		k, ok1 := num(1, 1, c19MaxK)
		nw, ok2 := num(2, 0, 400)
		seed, ok3 := num(3, 0, 999999999)
		if !ok1 || !ok2 || !ok3 || len(args) != 4 {
			return bad
		}
		oracle = c19Dawg(k, nw, int64(seed))
		out = fmt.Sprintf("ok dawg k=%d", k)
		if k > 1 && nw > 0 {
			tags = append(tags, "nontrivial")
		}
	case "gobs":
		k, ok1 := num(1, 1, c19MaxK)
		if len(args) != 5 || !ok1 {
			return bad
		}
		gk := args[2]
		if gk != "dense" && gk != "sparse" && gk != "compl" && gk != "induced" {
			return bad
		}
		n, ok2 := num(3, 0, 10)
		seed, ok3 := num(4, 0, 999999999)
		if !ok2 || !ok3 {
			return bad
		}
		oracle = c19Gobs(k, gk, n, int64(seed))
		out = fmt.Sprintf("ok gobs k=%d", k)
		tags = append(tags, "gobs-"+gk)
		if k > 1 && n > 1 {
			tags = append(tags, "nontrivial")
		}
	case "comb", "sints", "build":
		k, ok1 := num(1, 1, c19MaxK)
		seed, ok2 := num(2, 0, 999999999)
		if !ok1 || !ok2 || len(args) != 3 {
			return bad
		}
		switch kind {
		case "comb":
			oracle = c19Comb(k, int64(seed))
		case "sints":
			oracle = c19Sints(k, int64(seed))
		default:
			oracle = c19Build(k, int64(seed))
		}
		out = fmt.Sprintf("ok %s k=%d", kind, k)
		if k > 1 {
			tags = append(tags, "nontrivial")
		}
	default:
		return bad
	}
	if oracle != "" {
		tags = append(tags, "interference")
	}
	return Result{Out: out, Oracle: oracle, Tags: tags}
}

func c19Gen(r *rand.Rand, tier string, emit func(string)) {
	// boundary cases first
	for _, l := range []string{
		"c19 shards 0 1", "c19 shards 0 3", "c19 shards 1 1", "c19 shards 1 2", "c19 shards 2 2", "c19 shards 3 8",
		"c19 canon 1 1 1 0", "c19 iters 1 0", "c19 iters 2 0", "c19 iters 2 1", "c19 dawg 2 0 0", "c19 dawg 2 1 0",
		"c19 gobs 2 dense 0 0", "c19 gobs 2 sparse 1 0", "c19 gobs 2 compl 0 0", "c19 gobs 2 induced 1 0", "c19 gobs 16 dense 2 1",
		"c19 comb 1 0", "c19 sints 1 0", "c19 build 1 0",
	} {
		emit(l)
	}
	// every (n, m) of the split search up to the tier's size
	maxN := 6
	if tier == "thorough" {
		maxN = 8
	}
	for n := 2; n <= maxN; n++ {
		for m := 2; m <= 8; m++ {
			emit(fmt.Sprintf("c19 shards %d %d", n, m))
		}
	}
	if tier != "thorough" {
		emit("c19 shards 7 4")
		emit("c19 shards 7 8")
	}
	rounds := 10
	if tier == "thorough" {
		rounds = 150
	}
	kinds := []string{"dense", "sparse", "compl", "induced"}
	for i := 0; i < rounds; i++ {
		k := 2 + r.Intn(c19MaxK-1)
		emit(fmt.Sprintf("c19 canon %d %d %d %d", k, 2+r.Intn(9), 5+r.Intn(20), r.Intn(1000000)))
		emit(fmt.Sprintf("c19 iters %d %d", 2+r.Intn(c19MaxK-1), 2+r.Intn(4)))
		emit(fmt.Sprintf("c19 dawg %d %d %d", 2+r.Intn(c19MaxK-1), 1+r.Intn(300), r.Intn(1000000)))
		for _, gk := range kinds {
			emit(fmt.Sprintf("c19 gobs %d %s %d %d", 2+r.Intn(c19MaxK-1), gk, 2+r.Intn(9), r.Intn(1000000)))
		}
		emit(fmt.Sprintf("c19 comb %d %d", 2+r.Intn(c19MaxK-1), r.Intn(1000000)))
		emit(fmt.Sprintf("c19 sints %d %d", 2+r.Intn(c19MaxK-1), r.Intn(1000000)))
		emit(fmt.Sprintf("c19 build %d %d", 2+r.Intn(c19MaxK-1), r.Intn(1000000)))
	}
	// malformed requests (both sides must answer bad-op)
	for _, l := range []string{
		"c19", "c19 shards", "c19 shards 9 2", "c19 shards 3 0", "c19 shards 3 9", "c19 shards 3 2 1", "c19 shards x 2", "c19 shards -1 2",
		"c19 canon 0 3 3 1", "c19 canon 17 3 3 1", "c19 canon 2 0 3 1", "c19 canon 2 13 3 1", "c19 canon 2 3 0 1", "c19 canon 2 3 51 1", "c19 canon 2 3 3",
		"c19 iters 2 7", "c19 iters 0 2", "c19 iters 2", "c19 dawg 2 401 1", "c19 dawg 2 5", "c19 gobs 2 dense 11 0", "c19 gobs 2 tree 3 0", "c19 gobs 2 dense 3",
		"c19 comb 2", "c19 comb 0 1", "c19 sints 17 1", "c19 build 2 1 1", "c19 nothing 1 1", "c19 comb 2 1000000000", "c19 comb 02 1",
	} {
		emit(l)
	}
}

func init() {
	register(&Proto{Name: "c19", Props: []string{"C19"}, Run: c19Run, Gen: c19Gen, Timeout: 150 * time.Second})
}
