package main

import (
	"fmt"
	"math/rand"
	"strconv"
	"strings"

	"github.com/Tom-Johnston/mamba/graph"
)

// Protocol c05:  c05 <n> <m> u1 v1 ... um vm <op>*
//   ops: av k v1..vk (AddVertex) | rv v (RemoveVertex) | ae i j (AddEdge) | re i j (RemoveEdge)
//        cp (continue with g.Copy(), the original is then mutated) | is k v1..vk (continue with g.InducedSubgraph(V))
// A *DenseGraph and a *SparseGraph are driven in lock step. Reply: the observable state after the start graph and
// after every op, separated by ';'. One state is <dense>|<sparse> ('=' when the sparse part is identical), a part is
//   N M [Degrees] [Neighbours(0)]...[Neighbours(N-1)] <IsEdge bits in the order 01 02 12 03 ...>
//
// Oracle (independent of the Lean model): a plain adjacency matrix is edited alongside; after every op, for both
// representations, N, M, Degrees, every Neighbours list (ascending) and IsEdge on all ordered pairs must agree with
// it (hence with each other); no op may panic (arguments are valid); Copy / InducedSubgraph results and their source
// must not influence each other (aliasing probes), the slices handed to AddVertex / InducedSubgraph may be changed by
// the caller afterwards; InducedSubgraph(V) has vertex i = V[i] (via the matrix model).

// c05Plain is the plain adjacency-matrix model.
type c05Plain [][]bool

func c05FromEG(g EG) c05Plain { return c05Plain(g.Adj()) }

func (a c05Plain) addVertex(S []int) c05Plain {
	n := len(a)
	b := make(c05Plain, n+1)
	for i := range b {
		b[i] = make([]bool, n+1)
		if i < n {
			copy(b[i], a[i])
		}
	}
	for _, v := range S {
		b[n][v] = true
		b[v][n] = true
	}
	return b
}

func (a c05Plain) induced(V []int) c05Plain {
	b := make(c05Plain, len(V))
	for i := range b {
		b[i] = make([]bool, len(V))
		for j := range b[i] {
			b[i][j] = a[V[i]][V[j]]
		}
	}
	return b
}

func (a c05Plain) removeVertex(v int) c05Plain {
	V := []int{}
	for i := range a {
		if i != v {
			V = append(V, i)
		}
	}
	return a.induced(V)
}

// c05State prints the observable state of g (read through the Graph interface only).
func c05State(g graph.Graph) string {
	var b strings.Builder
	n := g.N()
	b.WriteString(strconv.Itoa(n))
	b.WriteByte(' ')
	b.WriteString(strconv.Itoa(g.M()))
	b.WriteByte(' ')
	b.WriteString(showInts(g.Degrees()))
	b.WriteByte(' ')
	for v := 0; v < n; v++ {
		b.WriteString(showInts(g.Neighbours(v)))
	}
	b.WriteByte(' ')
	for v := 0; v < n; v++ {
		for u := 0; u < v; u++ {
			if g.IsEdge(u, v) {
				b.WriteByte('1')
			} else {
				b.WriteByte('0')
			}
		}
	}
	return b.String()
}

// c05Check compares every observer of g with the plain model; "" if they agree.
func c05Check(g graph.Graph, a c05Plain) string {
	n := len(a)
	if g.N() != n {
		return fmt.Sprintf("N()=%d, plain model has %d vertices", g.N(), n)
	}
	m := 0
	deg := make([]int, n)
	for i := 0; i < n; i++ {
		for j := 0; j < n; j++ {
			if a[i][j] {
				deg[i]++
				if i < j {
					m++
				}
			}
		}
	}
	if g.M() != m {
		return fmt.Sprintf("M()=%d, plain model has %d edges", g.M(), m)
	}
	d := g.Degrees()
	if len(d) != n {
		return fmt.Sprintf("Degrees() has length %d for %d vertices", len(d), n)
	}
	for i := range d {
		if d[i] != deg[i] {
			return fmt.Sprintf("Degrees()=%v, plain model %v", d, deg)
		}
	}
	for i := 0; i < n; i++ {
		want := []int{}
		for j := 0; j < n; j++ {
			if a[i][j] {
				want = append(want, j)
			}
		}
		got := g.Neighbours(i)
		if showInts(got) != showInts(want) {
			return fmt.Sprintf("Neighbours(%d)=%v, plain model (ascending) %v", i, got, want)
		}
		for j := 0; j < n; j++ {
			if g.IsEdge(i, j) != a[i][j] {
				return fmt.Sprintf("IsEdge(%d,%d)=%v, plain model %v", i, j, g.IsEdge(i, j), a[i][j])
			}
		}
	}
	return ""
}

// c05Scramble edits g in place in every way the interface allows (used on one side of an aliasing probe).
func c05Scramble(g graph.EditableGraph) {
	n := g.N()
	for j := 0; j < n; j++ {
		for i := 0; i < j; i++ {
			if g.IsEdge(i, j) {
				g.RemoveEdge(i, j)
			} else {
				g.AddEdge(i, j)
			}
		}
	}
	if n > 0 {
		g.RemoveVertex(0)
	}
	all := make([]int, g.N())
	for i := range all {
		all[i] = i
	}
	g.AddVertex(all)
	if g.N() > 1 {
		g.RemoveVertex(g.N() - 2)
	}
	g.AddVertex([]int{})
}

// c05Derive performs `cp` (V == nil) or `is V` on g with the aliasing probes; returns the derived graph.
func c05Derive(g graph.EditableGraph, V []int, isInduced bool, fail func(string)) graph.EditableGraph {
	derive := func() (graph.EditableGraph, []int) {
		if !isInduced {
			return g.Copy(), nil
		}
		arg := append([]int{}, V...)
		return g.InducedSubgraph(arg), arg
	}
	what := "Copy"
	if isInduced {
		what = "InducedSubgraph"
	}
	// (a) editing a derived graph must not change the source
	before := c05State(g)
	k, _ := derive()
	c05Scramble(k)
	if after := c05State(g); after != before {
		fail(fmt.Sprintf("editing the result of %s changed the source: %s -> %s", what, before, after))
	}
	// (b) editing the source (and the argument slice) must not change the derived graph
	h, arg := derive()
	snap := c05State(h)
	c05Scramble(g)
	for i := range arg {
		arg[i] = 0
	}
	if after := c05State(h); after != snap {
		fail(fmt.Sprintf("editing the source after %s changed the result: %s -> %s", what, snap, after))
	}
	return h
}

func init() {
	register(&Proto{
		Name:  "c05",
		Props: []string{"C05"},
		Run: func(args []string) Result {
			eg, ops := parseEG(args)
			plain := c05FromEG(eg)
			var gs [2]graph.EditableGraph
			names := [2]string{"DenseGraph", "SparseGraph"}
			gs[0] = eg.Dense()
			gs[1] = eg.Sparse()
			oracle := ""
			fail := func(s string) {
				if oracle == "" {
					oracle = s
				}
			}
			tags := map[string]bool{}
			var out strings.Builder
			maxN := eg.N
			observe := func(when string) bool {
				var st [2]string
				for r := 0; r < 2; r++ {
					r := r
					st[r] = guard(func() string {
						if msg := c05Check(gs[r], plain); msg != "" {
							fail(names[r] + " " + when + ": " + msg)
						}
						return c05State(gs[r])
					})
					if st[r] == "panic" {
						fail(names[r] + " " + when + ": an observer panicked")
					}
				}
				if st[0] != st[1] {
					fail(when + ": the two representations differ: " + st[0] + " vs " + st[1])
				}
				out.WriteString(st[0])
				out.WriteByte('|')
				if st[0] == st[1] {
					out.WriteByte('=')
				} else {
					out.WriteString(st[1])
				}
				return st[0] != "panic" && st[1] != "panic"
			}
			if !observe("start graph") {
				return Result{Out: out.String(), Oracle: oracle}
			}
			nops, vertexOps := 0, 0
			for i := 0; i < len(ops); {
				op := ops[i]
				var a []int
				switch op {
				case "av", "is":
					k := atoi(ops[i+1])
					a = atois(ops[i+2 : i+2+k])
					i += 2 + k
				case "rv":
					a = []int{atoi(ops[i+1])}
					i += 2
				case "ae", "re":
					a = []int{atoi(ops[i+1]), atoi(ops[i+2])}
					i += 3
				case "cp":
					i++
				default:
					return Result{Out: "bad-op"}
				}
				nops++
				tags[op] = true
				when := fmt.Sprintf("after op %d (%s %v)", nops, op, a)
				panicked := false
				for r := 0; r < 2; r++ {
					r := r
					res := guard(func() string {
						g := gs[r]
						switch op {
						case "av":
							nb := append([]int{}, a...)
							g.AddVertex(nb)
							snap := c05State(g)
							for x := range nb {
								nb[x] = 0
							}
							if after := c05State(g); after != snap {
								fail(names[r] + " " + when + ": changing the slice given to AddVertex changed the graph")
							}
						case "rv":
							g.RemoveVertex(a[0])
						case "ae":
							g.AddEdge(a[0], a[1])
						case "re":
							g.RemoveEdge(a[0], a[1])
						case "cp":
							gs[r] = c05Derive(g, nil, false, func(s string) { fail(names[r] + " " + when + ": " + s) })
						case "is":
							gs[r] = c05Derive(g, a, true, func(s string) { fail(names[r] + " " + when + ": " + s) })
						}
						return ""
					})
					if res == "panic" {
						fail(names[r] + " " + when + ": panicked on valid arguments")
						panicked = true
					}
				}
				out.WriteByte(';')
				if panicked {
					out.WriteString("panic")
					break
				}
				switch op {
				case "av":
					plain = plain.addVertex(a)
					vertexOps++
				case "rv":
					plain = plain.removeVertex(a[0])
					vertexOps++
				case "ae":
					if a[0] != a[1] {
						plain[a[0]][a[1]], plain[a[1]][a[0]] = true, true
					}
				case "re":
					if a[0] != a[1] {
						plain[a[0]][a[1]], plain[a[1]][a[0]] = false, false
					}
				case "is":
					plain = plain.induced(a)
				}
				if len(plain) > maxN {
					maxN = len(plain)
				}
				if !observe(when) {
					break
				}
			}
			tl := []string{}
			for t := range tags {
				tl = append(tl, "op-"+t)
			}
			if nops >= 3 && vertexOps >= 1 && maxN >= 3 {
				tl = append(tl, "nontrivial")
			}
			switch {
			case nops <= 10:
				tl = append(tl, "len-1-10")
			case nops <= 50:
				tl = append(tl, "len-11-50")
			case nops <= 200:
				tl = append(tl, "len-51-200")
			default:
				tl = append(tl, "len-200+")
			}
			return Result{Out: out.String(), Oracle: oracle, Tags: tl}
		},
		Gen: func(r *rand.Rand, tier string, emit func(string)) {
			// boundary cases first
			for _, s := range []string{
				"c05 0 0",
				"c05 0 0 av 0 av 1 0 av 2 1 0 rv 0 rv 0 rv 0 av 0",
				"c05 0 0 cp is 0 cp av 0 is 1 0 is 0",
				"c05 1 0 rv 0",
				"c05 1 0 ae 0 0 re 0 0 cp is 1 0 av 1 0 re 0 1 re 0 1 ae 1 0 ae 0 1",
				"c05 2 1 0 1 re 0 1 re 1 0 ae 1 0 ae 0 1 ae 1 1 rv 0 av 1 0 rv 1",
				"c05 4 6 0 1 0 2 1 2 0 3 1 3 2 3 rv 1 av 0 av 2 3 0 rv 0 av 3 2 0 1",
				"c05 4 6 0 1 0 2 1 2 0 3 1 3 2 3 rv 0 rv 0 rv 0 rv 0",
				"c05 4 6 0 1 0 2 1 2 0 3 1 3 2 3 rv 3 rv 2 rv 1 rv 0",
				"c05 5 4 0 1 1 2 2 3 3 4 is 5 4 3 2 1 0 is 3 4 0 2 cp rv 1 av 2 1 0",
				"c05 5 4 0 1 1 2 2 3 3 4 rv 2 cp av 4 3 1 0 2 rv 0 is 4 3 1 2 0",
			} {
				emit(s)
			}
			cases, long := 3000, 10
			maxN := 12
			if tier == "thorough" {
				cases, long = 14000, 250
			}
			startN := 0 // > 0: start from a random graph on that many vertices
			gen := func(nops, maxN int) {
				g := genEG(r, min(maxN, 8))
				if startN > 0 {
					g = randomEG(r, startN, []float64{0.04, 0.1, 0.2, 0.5}[r.Intn(4)])
				}
				var b strings.Builder
				b.WriteString("c05 " + g.Tokens())
				n := g.N
				subset := func(k int) []int {
					p := r.Perm(n)
					return p[:k]
				}
				prevRv := false
				for k := 0; k < nops; k++ {
					p := r.Intn(100)
					switch {
					case n == 0 || (p < 16 && n < maxN) || (prevRv && r.Intn(2) == 0 && n < maxN) || (n < 4 && r.Intn(2) == 0):
						kk := 0
						if n > 0 {
							kk = r.Intn(n + 1)
						}
						b.WriteString(fmt.Sprintf(" av %d", kk))
						for _, v := range subset(kk) {
							b.WriteString(" " + strconv.Itoa(v))
						}
						n++
						prevRv = false
					case p < 30:
						b.WriteString(fmt.Sprintf(" rv %d", r.Intn(n)))
						n--
						prevRv = true
					case p < 58:
						b.WriteString(fmt.Sprintf(" ae %d %d", r.Intn(n), r.Intn(n)))
					case p < 82:
						b.WriteString(fmt.Sprintf(" re %d %d", r.Intn(n), r.Intn(n)))
					case p < 90:
						b.WriteString(" cp")
					default:
						kk := n
						if r.Intn(3) > 0 {
							kk = n - r.Intn(min(n, 3)+1)
						}
						if r.Intn(12) == 0 {
							kk = r.Intn(n + 1)
						}
						b.WriteString(fmt.Sprintf(" is %d", kk))
						for _, v := range subset(kk) {
							b.WriteString(" " + strconv.Itoa(v))
						}
						n = kk
					}
				}
				if startN > 0 && n > 2 {
					kk := n - r.Intn(3)
					b.WriteString(fmt.Sprintf(" is %d", kk))
					for _, v := range subset(kk) {
						b.WriteString(" " + strconv.Itoa(v))
					}
				}
				emit(b.String())
			}
			for c := 0; c < cases; c++ {
				nops := 0
				switch p := r.Intn(100); {
				case p < 45:
					nops = 1 + r.Intn(12)
				case p < 85:
					nops = 10 + r.Intn(50)
				default:
					nops = 60 + r.Intn(141)
				}
				gen(nops, maxN)
			}
			for c := 0; c < long; c++ {
				gen(200+r.Intn(800), 16)
			}
			// larger graphs, few operations: neighbourhoods and vertex lists long enough for any size-dependent path
			for c := 0; c < cases/12; c++ {
				startN = 17 + r.Intn(28)
				gen(1+r.Intn(6), 48)
			}
			startN = 0
		},
	})
}
