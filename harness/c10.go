package main

import (
	"fmt"
	"math/rand"
	"sort"
	"strconv"
	"strings"

	"github.com/Tom-Johnston/mamba/graph"
)

// Protocol c10:  c10 n m u1 v1 ... um vm [p0 ... p_{n-1}]
//
// Reply: one canonical line with every C10 quantity as returned by the library for the DenseGraph form of the
// graph: distance matrix, eccentricities, diameter, radius, girth, components (each as returned, the list ordered
// by least element), ConnectedComponent(v) for every v, blocks (each as returned, list in lexicographic order),
// articulation vertices (sorted), NumberOfCycles, and for every bound b in -1..n+1 the entries 0..effective bound
// of NumberOfInducedCycles(g, b) and NumberOfInducedPaths(g, b). "F=ok" is a constant on the Go side (on the Lean
// side it says that the faithful models agree with the specifications).
// NumberOfCycles is exponential in m-n (Gibbs); it is only called when m-n <= c10CycLimit ("cyc=-" otherwise).
//
// Oracle (independent of the Lean model): naive algorithms on the adjacency matrix (Floyd-Warshall, flood fill,
// DFS enumeration of simple cycles / induced paths, blocks and articulation vertices by definition over vertex
// subsets / vertex removal). The same quantities are recomputed through SparseGraph, the Complement(Complement(g))
// view, the InducedSubgraph(identity) view, and for the relabelling p (if given) through DenseGraph, SparseGraph
// and the InducedSubgraph(g, p) view, and transported back through p. No call may panic.

const c10CycLimit = 14

// the other representations repeat NumberOfCycles only up to this value of m-n
const c10CycLimitForms = 11

type c10Vals struct {
	D      [][]int
	Ecc    []int
	Diam   int
	Rad    int
	Girth  int
	CC     [][]int
	CC1    [][]int
	Blocks [][]int
	Art    []int
	Cyc    []int         // nil if not computed
	ICyc   map[int][]int // by bound
	IPath  map[int][]int
	Err    string // first panic
}

func c10LexLess(a, b []int) bool {
	for i := 0; i < len(a) && i < len(b); i++ {
		if a[i] != b[i] {
			return a[i] < b[i]
		}
	}
	return len(a) < len(b)
}

func c10Copy2(a [][]int) [][]int {
	out := make([][]int, len(a))
	for i := range a {
		out[i] = append([]int{}, a[i]...)
	}
	return out
}

// c10Lib calls the library on one representation. eg == nil means the representation is not editable.
func c10Lib(g graph.Graph, eg graph.EditableGraph, withCyc bool, full bool) (v c10Vals) {
	n := g.N()
	try := func(name string, f func()) {
		defer func() {
			if e := recover(); e != nil && v.Err == "" {
				v.Err = fmt.Sprintf("%s panicked: %v", name, e)
			}
		}()
		f()
	}
	try("Distance", func() {
		v.D = make([][]int, n)
		for i := 0; i < n; i++ {
			v.D[i] = make([]int, n)
			for j := 0; j < n; j++ {
				v.D[i][j] = graph.Distance(g, i, j)
			}
		}
	})
	try("Eccentricity", func() { v.Ecc = graph.Eccentricity(g) })
	try("Diameter", func() { v.Diam = graph.Diameter(g) })
	try("Radius", func() { v.Rad = graph.Radius(g) })
	try("Girth", func() { v.Girth = graph.Girth(g) })
	try("ConnectedComponents", func() {
		v.CC = c10Copy2(graph.ConnectedComponents(g))
		sort.SliceStable(v.CC, func(i, j int) bool {
			if len(v.CC[i]) == 0 || len(v.CC[j]) == 0 {
				return len(v.CC[i]) < len(v.CC[j])
			}
			return v.CC[i][0] < v.CC[j][0]
		})
	})
	try("ConnectedComponent", func() {
		v.CC1 = make([][]int, n)
		for i := 0; i < n; i++ {
			v.CC1[i] = append([]int{}, graph.ConnectedComponent(g, i)...)
		}
	})
	try("BiconnectedComponents", func() {
		b, a := graph.BiconnectedComponents(g)
		v.Blocks = c10Copy2(b)
		sort.SliceStable(v.Blocks, func(i, j int) bool { return c10LexLess(v.Blocks[i], v.Blocks[j]) })
		v.Art = append([]int{}, a...)
		sort.Ints(v.Art)
	})
	if eg != nil && withCyc {
		try("NumberOfCycles", func() { v.Cyc = append([]int{}, graph.NumberOfCycles(eg)...) })
	}
	v.ICyc, v.IPath = map[int][]int{}, map[int][]int{}
	for b := -1; b <= n+1 && full; b++ {
		bb := b
		try("NumberOfInducedCycles", func() { v.ICyc[bb] = append([]int{}, graph.NumberOfInducedCycles(g, bb)...) })
		try("NumberOfInducedPaths", func() { v.IPath[bb] = append([]int{}, graph.NumberOfInducedPaths(g, bb)...) })
	}
	return v
}

// ---- naive reference algorithms on an adjacency matrix ----

func c10Comps(a [][]bool, in []bool) [][]int {
	n := len(a)
	seen := make([]bool, n)
	var res [][]int
	for s := 0; s < n; s++ {
		if seen[s] || !in[s] {
			continue
		}
		c := []int{s}
		seen[s] = true
		for i := 0; i < len(c); i++ {
			for u := 0; u < n; u++ {
				if in[u] && a[c[i]][u] && !seen[u] {
					seen[u] = true
					c = append(c, u)
				}
			}
		}
		sort.Ints(c)
		res = append(res, c)
	}
	return res
}

// c10CycleCounts: simple cycles by length (each found from its least vertex, in both directions, hence /2).
func c10CycleCounts(a [][]bool, induced bool) []int {
	n := len(a)
	res := make([]int, n+1)
	var path []int
	used := make([]bool, n)
	var rec func(s, v int)
	rec = func(s, v int) {
		for u := 0; u < n; u++ {
			if !a[v][u] {
				continue
			}
			if u == s && len(path) >= 3 {
				ok := true
				if induced {
					for i := 0; i < len(path) && ok; i++ {
						for j := i + 2; j < len(path); j++ {
							if i == 0 && j == len(path)-1 {
								continue
							}
							if a[path[i]][path[j]] {
								ok = false
								break
							}
						}
					}
				}
				if ok {
					res[len(path)]++
				}
			}
			if u > s && !used[u] {
				used[u] = true
				path = append(path, u)
				rec(s, u)
				path = path[:len(path)-1]
				used[u] = false
			}
		}
	}
	for s := 0; s < n; s++ {
		used[s] = true
		path = []int{s}
		rec(s, s)
		used[s] = false
	}
	for i := range res {
		res[i] /= 2
	}
	return res
}

// c10InducedPathCounts[l] = number of induced paths with l edges (l = 0: vertices), as unordered subgraphs.
func c10InducedPathCounts(a [][]bool) []int {
	n := len(a)
	res := make([]int, n)
	var path []int
	var rec func()
	rec = func() {
		v := path[len(path)-1]
		for u := 0; u < n; u++ {
			if !a[v][u] {
				continue
			}
			ok := true
			for i, w := range path {
				if w == u || (i < len(path)-1 && a[w][u]) {
					ok = false
					break
				}
			}
			if !ok {
				continue
			}
			if u > path[0] { // count each path once: from its smaller end
				res[len(path)]++
			}
			path = append(path, u)
			rec()
			path = path[:len(path)-1]
		}
	}
	for s := 0; s < n; s++ {
		path = []int{s}
		rec()
	}
	if n > 0 {
		res[0] = n
	}
	return res
}

func c10Brute(g EG) (v c10Vals) {
	n := g.N
	a := g.Adj()
	const inf = 1 << 20
	d := make([][]int, n)
	for i := range d {
		d[i] = make([]int, n)
		for j := range d[i] {
			switch {
			case i == j:
				d[i][j] = 0
			case a[i][j]:
				d[i][j] = 1
			default:
				d[i][j] = inf
			}
		}
	}
	for k := 0; k < n; k++ {
		for i := 0; i < n; i++ {
			for j := 0; j < n; j++ {
				if d[i][k]+d[k][j] < d[i][j] {
					d[i][j] = d[i][k] + d[k][j]
				}
			}
		}
	}
	conn := true
	v.D = make([][]int, n)
	for i := range d {
		v.D[i] = make([]int, n)
		for j := range d[i] {
			if d[i][j] >= inf {
				v.D[i][j] = -1
				conn = false
			} else {
				v.D[i][j] = d[i][j]
			}
		}
	}
	v.Ecc = make([]int, n)
	v.Diam, v.Rad = 0, 0
	for i := 0; i < n; i++ {
		e := 0
		for j := 0; j < n; j++ {
			if v.D[i][j] > e {
				e = v.D[i][j]
			}
		}
		if !conn {
			e = -1
		}
		v.Ecc[i] = e
		if i == 0 || e > v.Diam {
			v.Diam = e
		}
		if i == 0 || e < v.Rad {
			v.Rad = e
		}
	}
	all := make([]bool, n)
	for i := range all {
		all[i] = true
	}
	v.CC = c10Comps(a, all)
	v.CC1 = make([][]int, n)
	for _, c := range v.CC {
		for _, x := range c {
			v.CC1[x] = c
		}
	}
	// articulation vertices: removal increases the number of components
	v.Art = []int{}
	for x := 0; x < n; x++ {
		all[x] = false
		if len(c10Comps(a, all)) > len(v.CC) {
			v.Art = append(v.Art, x)
		}
		all[x] = true
	}
	// blocks: maximal non-empty S with g[S] connected and without articulation vertex
	if n <= 12 {
		in := make([]bool, n)
		good := []int{}
		for s := 1; s < 1<<uint(n); s++ {
			for i := 0; i < n; i++ {
				in[i] = s>>uint(i)&1 == 1
			}
			if len(c10Comps(a, in)) != 1 {
				continue
			}
			ok := true
			for x := 0; x < n && ok; x++ {
				if in[x] {
					in[x] = false
					if len(c10Comps(a, in)) > 1 {
						ok = false
					}
					in[x] = true
				}
			}
			if ok {
				good = append(good, s)
			}
		}
		v.Blocks = [][]int{}
		for _, s := range good {
			max := true
			for _, t := range good {
				if t != s && t&s == s {
					max = false
					break
				}
			}
			if max {
				b := []int{}
				for i := 0; i < n; i++ {
					if s>>uint(i)&1 == 1 {
						b = append(b, i)
					}
				}
				v.Blocks = append(v.Blocks, b)
			}
		}
		sort.SliceStable(v.Blocks, func(i, j int) bool { return c10LexLess(v.Blocks[i], v.Blocks[j]) })
	}
	v.Cyc = c10CycleCounts(a, false)
	v.Girth = -1
	for l := 3; l <= n; l++ {
		if v.Cyc[l] > 0 {
			v.Girth = l
			break
		}
	}
	ic := c10CycleCounts(a, true)
	ip := c10InducedPathCounts(a)
	v.ICyc, v.IPath = map[int][]int{}, map[int][]int{}
	v.ICyc[-1], v.IPath[-1] = ic, ip // full tables; bounds are applied by the comparison
	return v
}

func c10EffCyc(n, b int) int {
	if b < 0 || b > n {
		return n
	}
	return b
}
func c10EffPath(n, b int) int {
	if b < 0 || b > n-1 {
		return n - 1
	}
	return b
}

// c10Transport maps values computed on h (h.adj(i,j) = g.adj(p[i],p[j])) back to the labelling of g.
func c10Transport(v c10Vals, p []int) c10Vals {
	n := len(p)
	w := v
	if v.Err != "" {
		return w
	}
	mapList := func(l []int) []int {
		out := make([]int, len(l))
		for i, x := range l {
			if x < 0 || x >= n {
				out[i] = -1000 - x
			} else {
				out[i] = p[x]
			}
		}
		sort.Ints(out)
		return out
	}
	if len(v.D) == n {
		w.D = make([][]int, n)
		for i := range w.D {
			w.D[i] = make([]int, n)
		}
		for i := 0; i < n; i++ {
			for j := 0; j < n; j++ {
				w.D[p[i]][p[j]] = v.D[i][j]
			}
		}
	}
	if len(v.Ecc) == n {
		w.Ecc = make([]int, n)
		for i := 0; i < n; i++ {
			w.Ecc[p[i]] = v.Ecc[i]
		}
	}
	w.CC = make([][]int, len(v.CC))
	for i, c := range v.CC {
		w.CC[i] = mapList(c)
	}
	sort.SliceStable(w.CC, func(i, j int) bool { return c10LexLess(w.CC[i], w.CC[j]) })
	if len(v.CC1) == n {
		w.CC1 = make([][]int, n)
		for i := 0; i < n; i++ {
			w.CC1[p[i]] = mapList(v.CC1[i])
		}
	}
	w.Blocks = make([][]int, len(v.Blocks))
	for i, c := range v.Blocks {
		w.Blocks[i] = mapList(c)
	}
	sort.SliceStable(w.Blocks, func(i, j int) bool { return c10LexLess(w.Blocks[i], w.Blocks[j]) })
	w.Art = mapList(v.Art)
	return w
}

// c10Compare checks library values (in the labelling of the reference) against the naive reference.
// sortedLists: demand that every component / block is returned as an increasing list (not for transported values,
// which were re-sorted by the transport).
func c10Compare(form string, n int, got, want c10Vals, sortedLists bool) string {
	if got.Err != "" {
		return form + ": " + got.Err
	}
	eq := func(a, b interface{}) bool { return fmt.Sprint(a) == fmt.Sprint(b) }
	if len(got.D) != n || !eq(got.D, want.D) {
		for i := 0; i < n && i < len(got.D); i++ {
			for j := 0; j < n; j++ {
				if got.D[i][j] != want.D[i][j] {
					return fmt.Sprintf("%s: Distance(%d,%d)=%d, shortest path length is %d", form, i, j, got.D[i][j], want.D[i][j])
				}
			}
		}
		return form + ": distance matrix has the wrong shape"
	}
	if !(n == 0 && len(got.Ecc) == 0) && !eq(got.Ecc, want.Ecc) {
		return fmt.Sprintf("%s: Eccentricity=%v, by definition %v", form, got.Ecc, want.Ecc)
	}
	if got.Diam != want.Diam {
		return fmt.Sprintf("%s: Diameter=%d, by definition %d", form, got.Diam, want.Diam)
	}
	if got.Rad != want.Rad {
		return fmt.Sprintf("%s: Radius=%d, by definition %d", form, got.Rad, want.Rad)
	}
	if got.Girth != want.Girth {
		return fmt.Sprintf("%s: Girth=%d, shortest cycle has length %d", form, got.Girth, want.Girth)
	}
	if sortedLists {
		for _, c := range got.CC {
			if !sort.IntsAreSorted(c) {
				return fmt.Sprintf("%s: component %v is not sorted", form, c)
			}
		}
		for _, c := range got.Blocks {
			if !sort.IntsAreSorted(c) {
				return fmt.Sprintf("%s: block %v is not sorted", form, c)
			}
		}
		for _, c := range got.CC1 {
			if !sort.IntsAreSorted(c) {
				return fmt.Sprintf("%s: ConnectedComponent %v is not sorted", form, c)
			}
		}
	}
	if len(got.CC) != len(want.CC) || (len(want.CC) > 0 && !eq(got.CC, want.CC)) {
		return fmt.Sprintf("%s: ConnectedComponents=%v, the components are %v", form, got.CC, want.CC)
	}
	if len(got.CC1) != n {
		return form + ": ConnectedComponent results missing"
	}
	for i := 0; i < n; i++ {
		if !eq(got.CC1[i], want.CC1[i]) {
			return fmt.Sprintf("%s: ConnectedComponent(%d)=%v, the component is %v", form, i, got.CC1[i], want.CC1[i])
		}
	}
	if want.Blocks != nil && (len(got.Blocks) != len(want.Blocks) || (len(want.Blocks) > 0 && !eq(got.Blocks, want.Blocks))) {
		return fmt.Sprintf("%s: BiconnectedComponents blocks=%v, the blocks are %v", form, got.Blocks, want.Blocks)
	}
	if len(got.Art) != len(want.Art) || (len(want.Art) > 0 && !eq(got.Art, want.Art)) {
		return fmt.Sprintf("%s: articulation vertices=%v, by definition %v", form, got.Art, want.Art)
	}
	if got.Cyc != nil && !eq(got.Cyc, want.Cyc) {
		return fmt.Sprintf("%s: NumberOfCycles=%v, the cycles by length are %v", form, got.Cyc, want.Cyc)
	}
	if want.ICyc == nil {
		return ""
	}
	ic, ip := want.ICyc[-1], want.IPath[-1]
	for b := -1; b <= n+1; b++ {
		r := got.ICyc[b]
		if len(r) != n+1 {
			return fmt.Sprintf("%s: NumberOfInducedCycles(g,%d) has length %d, want %d", form, b, len(r), n+1)
		}
		eff := c10EffCyc(n, b)
		for l := 0; l <= n; l++ {
			if r[l] != ic[l] && !(l > eff && r[l] == 0) {
				return fmt.Sprintf("%s: NumberOfInducedCycles(g,%d)=%v, the induced cycles by length are %v", form, b, r, ic)
			}
		}
		r = got.IPath[b]
		if len(r) != n {
			return fmt.Sprintf("%s: NumberOfInducedPaths(g,%d) has length %d, want %d", form, b, len(r), n)
		}
		eff = c10EffPath(n, b)
		for l := 0; l < n; l++ {
			if r[l] != ip[l] && !(l > eff && r[l] == 0) {
				return fmt.Sprintf("%s: NumberOfInducedPaths(g,%d)=%v, the induced paths by length are %v", form, b, r, ip)
			}
		}
	}
	return ""
}

func c10ShowLists(s [][]int) string {
	parts := make([]string, len(s))
	for i, x := range s {
		parts[i] = showInts(x)
	}
	return "[" + strings.Join(parts, " ") + "]"
}

func c10Line(n int, v c10Vals) string {
	if v.Err != "" {
		return "panic"
	}
	var b strings.Builder
	rows := make([]string, len(v.D))
	for i, r := range v.D {
		rows[i] = joinInts(r)
	}
	b.WriteString("D=[" + strings.Join(rows, ";") + "]")
	b.WriteString(" ecc=" + showInts(v.Ecc))
	fmt.Fprintf(&b, " diam=%d rad=%d girth=%d", v.Diam, v.Rad, v.Girth)
	b.WriteString(" cc=" + c10ShowLists(v.CC))
	b.WriteString(" cc1=" + c10ShowLists(v.CC1))
	b.WriteString(" blocks=" + c10ShowLists(v.Blocks))
	b.WriteString(" art=" + showInts(v.Art))
	if v.Cyc != nil {
		b.WriteString(" cyc=" + showInts(v.Cyc))
	} else {
		b.WriteString(" cyc=-")
	}
	pre := func(r []int, k int) []int {
		if k > len(r) {
			k = len(r)
		}
		if k < 0 {
			k = 0
		}
		return r[:k]
	}
	parts := []string{}
	for bd := -1; bd <= n+1; bd++ {
		parts = append(parts, strconv.Itoa(bd)+":"+showInts(pre(v.ICyc[bd], c10EffCyc(n, bd)+1)))
	}
	b.WriteString(" icyc=" + strings.Join(parts, "|"))
	parts = parts[:0]
	for bd := -1; bd <= n+1; bd++ {
		parts = append(parts, strconv.Itoa(bd)+":"+showInts(pre(v.IPath[bd], c10EffPath(n, bd)+1)))
	}
	b.WriteString(" ipath=" + strings.Join(parts, "|"))
	b.WriteString(" F=ok")
	return b.String()
}

func c10Run(args []string) Result {
	g, rest := parseEG(args)
	n := g.N
	var p []int
	if len(rest) == n && n > 0 {
		p = atois(rest)
		seen := make([]bool, n)
		for _, x := range p {
			if x < 0 || x >= n || seen[x] {
				return Result{Out: "bad-op"}
			}
			seen[x] = true
		}
	} else if len(rest) != 0 {
		return Result{Out: "bad-op"}
	}
	withCyc := len(g.E)-n <= c10CycLimit
	withCycForms := len(g.E)-n <= c10CycLimitForms
	want := c10Brute(g)
	oracle := ""
	note := func(s string) {
		if oracle == "" && s != "" {
			oracle = s
		}
	}
	dense := g.Dense()
	base := c10Lib(dense, dense, withCyc, true)
	note(c10Compare("DenseGraph", n, base, want, true))
	sp := g.Sparse()
	note(c10Compare("SparseGraph", n, c10Lib(sp, sp, withCycForms, true), want, true))
	note(c10Compare("Complement(Complement(g))", n, c10Lib(graph.Complement(graph.Complement(dense)), nil, false, true), want, true))
	id := make([]int, n)
	for i := range id {
		id[i] = i
	}
	note(c10Compare("InducedSubgraph(g, identity)", n, c10Lib(graph.InducedSubgraph(dense, id), nil, false, true), want, true))
	if p != nil {
		h := g.Relabel(p)
		hd := h.Dense()
		note(c10Compare(fmt.Sprintf("DenseGraph relabelled by %v (values mapped back)", p), n, c10Transport(c10Lib(hd, hd, withCycForms, true), p), want, false))
		hs := h.Sparse()
		note(c10Compare(fmt.Sprintf("SparseGraph relabelled by %v (values mapped back)", p), n, c10Transport(c10Lib(hs, hs, withCycForms, true), p), want, false))
		note(c10Compare(fmt.Sprintf("InducedSubgraph(g, %v) (values mapped back)", p), n, c10Transport(c10Lib(graph.InducedSubgraph(dense, p), nil, false, true), p), want, false))
	}
	if !c10GraphEq(dense, g) {
		note("the input graph was modified")
	}
	tags := []string{fmt.Sprintf("n=%d", n)}
	if len(want.CC) > 1 {
		tags = append(tags, "disconnected")
	}
	if len(want.Art) > 0 {
		tags = append(tags, "has-cut-vertex")
	}
	if want.Girth > 0 {
		tags = append(tags, fmt.Sprintf("girth=%d", want.Girth))
	} else {
		tags = append(tags, "acyclic")
	}
	if !withCyc {
		tags = append(tags, "cyc-skipped")
	}
	if n >= 3 && len(g.E) >= 2 {
		tags = append(tags, "nontrivial")
	}
	return Result{Out: c10Line(n, base), Oracle: oracle, Tags: tags}
}

func c10GraphEq(d graph.Graph, g EG) bool {
	h := fromGraph(d)
	return h.N == g.N && fmt.Sprint(h.E) == fmt.Sprint(g.E)
}

// ---- generators ----

func c10Emit(emit func(string), r *rand.Rand, g EG) {
	g = g.norm()
	s := "c10 " + g.Tokens()
	if g.N > 0 {
		s += " " + joinInts(r.Perm(g.N))
	}
	emit(s)
}

// c10Structured: families the property names: trees, cycles with chords, bridges and cut vertices, disconnected
// graphs, many short cycles (K4, K5, K33, wheels), blocks glued at cut vertices.
func c10Structured(r *rand.Rand, maxN int) EG {
	n := 3 + r.Intn(maxN-2)
	add := func(g *EG, u, v int) {
		if u == v {
			return
		}
		if u > v {
			u, v = v, u
		}
		for _, e := range g.E {
			if e[0] == u && e[1] == v {
				return
			}
		}
		g.E = append(g.E, [2]int{u, v})
	}
	g := EG{N: n}
	switch r.Intn(9) {
	case 0: // random tree
		for v := 1; v < n; v++ {
			add(&g, r.Intn(v), v)
		}
	case 1: // cycle with chords
		for i := 0; i < n; i++ {
			add(&g, i, (i+1)%n)
		}
		for k := r.Intn(3); k > 0; k-- {
			add(&g, r.Intn(n), r.Intn(n))
		}
	case 2: // two cliques/cycles joined by a bridge or sharing a cut vertex
		a := 1 + r.Intn(n-1)
		fill := func(lo, hi int) {
			if r.Intn(2) == 0 {
				for u := lo; u < hi; u++ {
					for v := u + 1; v < hi; v++ {
						add(&g, u, v)
					}
				}
			} else if hi-lo >= 3 {
				for i := lo; i < hi; i++ {
					j := i + 1
					if j == hi {
						j = lo
					}
					add(&g, i, j)
				}
			} else if hi-lo == 2 {
				add(&g, lo, lo+1)
			}
		}
		if r.Intn(2) == 0 {
			fill(0, a)
			fill(a, n)
			add(&g, r.Intn(a), a+r.Intn(n-a)) // bridge
		} else {
			fill(0, a+1) // share vertex a
			fill(a, n)
		}
	case 3: // wheel
		for i := 1; i < n; i++ {
			add(&g, 0, i)
			j := i + 1
			if j == n {
				j = 1
			}
			add(&g, i, j)
		}
	case 4: // complete bipartite
		a := 1 + r.Intn(n-1)
		for u := 0; u < a; u++ {
			for v := a; v < n; v++ {
				add(&g, u, v)
			}
		}
	case 5: // complete minus a few edges
		for u := 0; u < n; u++ {
			for v := u + 1; v < n; v++ {
				add(&g, u, v)
			}
		}
		for k := r.Intn(4); k > 0 && len(g.E) > 0; k-- {
			i := r.Intn(len(g.E))
			g.E = append(g.E[:i], g.E[i+1:]...)
		}
	case 6: // forest plus a few extra edges (disconnected, bridges)
		for v := 1; v < n; v++ {
			if r.Intn(4) != 0 {
				add(&g, r.Intn(v), v)
			}
		}
		for k := r.Intn(3); k > 0; k-- {
			add(&g, r.Intn(n), r.Intn(n))
		}
	case 7: // cactus-like: chain of small cycles sharing vertices
		v := 1
		last := 0
		for v < n {
			l := 2 + r.Intn(3) // cycle through `last` with l new vertices (l=... ) or a pendant edge
			if v+l > n {
				l = n - v
			}
			prev := last
			for i := 0; i < l; i++ {
				add(&g, prev, v+i)
				prev = v + i
			}
			if l >= 2 {
				add(&g, prev, last)
			}
			last = v + r.Intn(l)
			v += l
		}
	default: // long path / long cycle with pendant vertices (large distances)
		k := n - r.Intn(2)
		for i := 0; i+1 < k; i++ {
			add(&g, i, i+1)
		}
		if r.Intn(2) == 0 && k >= 3 {
			add(&g, 0, k-1)
		}
		for v := k; v < n; v++ {
			add(&g, r.Intn(k), v)
		}
	}
	g = g.norm()
	if r.Intn(3) != 0 {
		g = g.Relabel(r.Perm(g.N))
	}
	return g
}

func c10Gen(r *rand.Rand, tier string, emit func(string)) {
	// boundary cases first
	emit("c10 0 0")
	emit("c10 1 0 0")
	emit("c10 2 0 1 0")
	emit("c10 2 1 0 1 0 1")
	// all labelled graphs on n <= 4 (quick) / 5 (thorough); quick takes a random third of n = 5
	for n := 3; n <= 5; n++ {
		bits := uint(n * (n - 1) / 2)
		for mask := uint64(0); mask < 1<<bits; mask++ {
			if n == 5 && tier != "thorough" && r.Intn(3) != 0 {
				continue
			}
			c10Emit(emit, r, fromMask(n, mask))
		}
	}
	// named small graphs: K4, K5, K33, wheels, Petersen, triangle on the last three vertices
	named := []string{
		"4 6 0 1 0 2 1 2 0 3 1 3 2 3",
		"5 10 0 1 0 2 1 2 0 3 1 3 2 3 0 4 1 4 2 4 3 4",
		"6 9 0 3 0 4 0 5 1 3 1 4 1 5 2 3 2 4 2 5",
		"10 15 0 1 1 2 2 3 3 4 0 4 0 5 1 6 2 7 3 8 4 9 5 7 7 9 6 9 6 8 5 8",
		"6 3 3 4 3 5 4 5",
		"7 4 3 4 4 5 5 6 3 6",
		"8 8 0 1 1 2 2 3 3 4 4 5 5 6 6 7 0 7",
	}
	for _, s := range named {
		g, _ := parseEG(strings.Fields(s))
		c10Emit(emit, r, g)
	}
	cases, maxN := 700, 8
	if tier == "thorough" {
		cases, maxN = 12000, 10
	}
	for c := 0; c < cases; c++ {
		var g EG
		mn := maxN
		if tier == "thorough" && c%3 != 0 {
			mn = 9
		}
		if c%2 == 0 {
			g = genEG(r, mn)
		} else {
			g = c10Structured(r, mn)
		}
		if g.N < 3 && c > 20 { // the boundary block above covers the tiny graphs
			continue
		}
		// keep the dense end rare for n >= 9: the references enumerate all simple cycles
		if g.N >= 9 && len(g.E) > 26 {
			continue
		}
		c10Emit(emit, r, g)
	}
}

// ---- protocol c10d: larger graphs, polynomial quantities only ----
//
// c10d n m u1 v1 ... um vm [p0 ... p_{n-1}]
// Reply: D, ecc, diam, rad, girth, cc, cc1, art, F=ok (as in c10). The oracle additionally checks the blocks
// returned by BiconnectedComponents against a polynomial characterisation: x, y lie in a common block iff they
// are adjacent, or connected and not separated by the removal of any single other vertex; the block of such a
// pair is {x, y} together with every z related to both.

func c10BruteBig(g EG) (v c10Vals) {
	n := g.N
	a := g.Adj()
	bfs := func(s int, skipU, skipV int, removed int) []int {
		d := make([]int, n)
		for i := range d {
			d[i] = -1
		}
		if s == removed {
			return d
		}
		d[s] = 0
		q := []int{s}
		for h := 0; h < len(q); h++ {
			x := q[h]
			for y := 0; y < n; y++ {
				if !a[x][y] || y == removed || d[y] >= 0 {
					continue
				}
				if (x == skipU && y == skipV) || (x == skipV && y == skipU) {
					continue
				}
				d[y] = d[x] + 1
				q = append(q, y)
			}
		}
		return d
	}
	v.D = make([][]int, n)
	conn := true
	for i := 0; i < n; i++ {
		v.D[i] = bfs(i, -1, -1, -1)
		for _, x := range v.D[i] {
			if x < 0 {
				conn = false
			}
		}
	}
	v.Ecc = make([]int, n)
	for i := 0; i < n; i++ {
		e := 0
		for _, x := range v.D[i] {
			if x > e {
				e = x
			}
		}
		if !conn {
			e = -1
		}
		v.Ecc[i] = e
		if i == 0 || e > v.Diam {
			v.Diam = e
		}
		if i == 0 || e < v.Rad {
			v.Rad = e
		}
	}
	all := make([]bool, n)
	for i := range all {
		all[i] = true
	}
	v.CC = c10Comps(a, all)
	v.CC1 = make([][]int, n)
	for _, c := range v.CC {
		for _, x := range c {
			v.CC1[x] = c
		}
	}
	// girth: shortest cycle through an edge uv = 1 + distance from u to v avoiding that edge
	v.Girth = -1
	for _, e := range g.E {
		d := bfs(e[0], e[0], e[1], -1)[e[1]]
		if d >= 0 && (v.Girth < 0 || d+1 < v.Girth) {
			v.Girth = d + 1
		}
	}
	// component labels after removing each vertex
	v.Art = []int{}
	lab := make([][]int, n) // lab[r][x] = component label of x in g - r (-1 for r)
	for r := 0; r < n; r++ {
		all[r] = false
		cs := c10Comps(a, all)
		all[r] = true
		lab[r] = make([]int, n)
		lab[r][r] = -1
		for ci, c := range cs {
			for _, x := range c {
				lab[r][x] = ci
			}
		}
		if len(cs) > len(v.CC) {
			v.Art = append(v.Art, r)
		}
	}
	rel := func(x, y int) bool {
		if a[x][y] {
			return true
		}
		if v.D[x][y] < 0 {
			return false
		}
		for r := 0; r < n; r++ {
			if r != x && r != y && lab[r][x] != lab[r][y] {
				return false
			}
		}
		return true
	}
	R := make([][]bool, n)
	for x := 0; x < n; x++ {
		R[x] = make([]bool, n)
	}
	for x := 0; x < n; x++ {
		for y := x + 1; y < n; y++ {
			R[x][y] = rel(x, y)
			R[y][x] = R[x][y]
		}
	}
	seen := map[string]bool{}
	v.Blocks = [][]int{}
	for x := 0; x < n; x++ {
		isolated := true
		for y := 0; y < n; y++ {
			if y == x || !R[x][y] {
				continue
			}
			isolated = false
			if y < x {
				continue
			}
			b := []int{}
			for z := 0; z < n; z++ {
				if z == x || z == y || (R[x][z] && R[y][z]) {
					b = append(b, z)
				}
			}
			if k := fmt.Sprint(b); !seen[k] {
				seen[k] = true
				v.Blocks = append(v.Blocks, b)
			}
		}
		if isolated {
			v.Blocks = append(v.Blocks, []int{x})
		}
	}
	sort.SliceStable(v.Blocks, func(i, j int) bool { return c10LexLess(v.Blocks[i], v.Blocks[j]) })
	return v
}

func c10LineD(v c10Vals) string {
	if v.Err != "" {
		return "panic"
	}
	var b strings.Builder
	rows := make([]string, len(v.D))
	for i, r := range v.D {
		rows[i] = joinInts(r)
	}
	b.WriteString("D=[" + strings.Join(rows, ";") + "]")
	b.WriteString(" ecc=" + showInts(v.Ecc))
	fmt.Fprintf(&b, " diam=%d rad=%d girth=%d", v.Diam, v.Rad, v.Girth)
	b.WriteString(" cc=" + c10ShowLists(v.CC))
	b.WriteString(" cc1=" + c10ShowLists(v.CC1))
	b.WriteString(" art=" + showInts(v.Art))
	b.WriteString(" F=ok")
	return b.String()
}

func c10dRun(args []string) Result {
	g, rest := parseEG(args)
	n := g.N
	var p []int
	if len(rest) == n && n > 0 {
		p = atois(rest)
		seen := make([]bool, n)
		for _, x := range p {
			if x < 0 || x >= n || seen[x] {
				return Result{Out: "bad-op"}
			}
			seen[x] = true
		}
	} else if len(rest) != 0 {
		return Result{Out: "bad-op"}
	}
	want := c10BruteBig(g)
	oracle := ""
	note := func(s string) {
		if oracle == "" && s != "" {
			oracle = s
		}
	}
	dense := g.Dense()
	base := c10Lib(dense, nil, false, false)
	note(c10Compare("DenseGraph", n, base, want, true))
	sp := g.Sparse()
	note(c10Compare("SparseGraph", n, c10Lib(sp, nil, false, false), want, true))
	note(c10Compare("Complement(Complement(g))", n, c10Lib(graph.Complement(graph.Complement(dense)), nil, false, false), want, true))
	if p != nil {
		hs := g.Relabel(p).Sparse()
		note(c10Compare(fmt.Sprintf("SparseGraph relabelled by %v (values mapped back)", p), n, c10Transport(c10Lib(hs, nil, false, false), p), want, false))
		note(c10Compare(fmt.Sprintf("InducedSubgraph(g, %v) (values mapped back)", p), n, c10Transport(c10Lib(graph.InducedSubgraph(dense, p), nil, false, false), p), want, false))
	}
	tags := []string{"big", fmt.Sprintf("diam=%d", want.Diam)}
	if want.Girth > 0 {
		tags = append(tags, fmt.Sprintf("girth=%d", want.Girth))
	}
	if len(g.E) >= 2 {
		tags = append(tags, "nontrivial")
	}
	return Result{Out: c10LineD(base), Oracle: oracle, Tags: tags}
}

func c10dGen(r *rand.Rand, tier string, emit func(string)) {
	cases := 150
	if tier == "thorough" {
		cases = 2500
	}
	out := func(g EG) {
		g = g.norm()
		if r.Intn(2) == 0 {
			g = g.Relabel(r.Perm(g.N))
		}
		emit("c10d " + g.Tokens() + " " + joinInts(r.Perm(g.N)))
	}
	for c := 0; c < cases; c++ {
		n := 11 + r.Intn(22)
		g := EG{N: n}
		has := map[[2]int]bool{}
		add := func(u, v int) {
			if u == v {
				return
			}
			if u > v {
				u, v = v, u
			}
			if !has[[2]int{u, v}] {
				has[[2]int{u, v}] = true
				g.E = append(g.E, [2]int{u, v})
			}
		}
		switch r.Intn(8) {
		case 0: // sparse random, around the connectivity threshold
			m := n/2 + r.Intn(n)
			for k := 0; k < m; k++ {
				add(r.Intn(n), r.Intn(n))
			}
		case 1: // tree plus a few edges (large girth, bridges, many cut vertices)
			for v := 1; v < n; v++ {
				lo := 0
				if r.Intn(2) == 0 && v > 3 {
					lo = v - 3 // long and thin
				}
				add(lo+r.Intn(v-lo), v)
			}
			for k := r.Intn(4); k > 0; k-- {
				add(r.Intn(n), r.Intn(n))
			}
		case 2: // long cycle with a few chords
			for i := 0; i < n; i++ {
				add(i, (i+1)%n)
			}
			for k := r.Intn(4); k > 0; k-- {
				add(r.Intn(n), r.Intn(n))
			}
		case 3: // grid
			w := 2 + r.Intn(4)
			for i := 0; i < n; i++ {
				if (i+1)%w != 0 && i+1 < n {
					add(i, i+1)
				}
				if i+w < n {
					add(i, i+w)
				}
			}
		case 4: // random bipartite (girth >= 4)
			a := 2 + r.Intn(n-3)
			p := 0.1 + 0.4*r.Float64()
			for u := 0; u < a; u++ {
				for v := a; v < n; v++ {
					if r.Float64() < p {
						add(u, v)
					}
				}
			}
		case 5: // chain of blocks: cycles and cliques glued at cut vertices, with pendant paths
			v, last := 1, 0
			for v < n {
				l := 1 + r.Intn(5)
				if v+l > n {
					l = n - v
				}
				if r.Intn(3) == 0 && l >= 2 { // clique on last + l new vertices
					vs := []int{last}
					for i := 0; i < l; i++ {
						vs = append(vs, v+i)
					}
					for i := range vs {
						for j := i + 1; j < len(vs); j++ {
							add(vs[i], vs[j])
						}
					}
				} else {
					prev := last
					for i := 0; i < l; i++ {
						add(prev, v+i)
						prev = v + i
					}
					if l >= 2 && r.Intn(3) != 0 {
						add(prev, last)
					}
				}
				last = v + r.Intn(l)
				v += l
			}
		case 6: // two or three disjoint pieces
			cut1 := 3 + r.Intn(n-6)
			for v := 1; v < n; v++ {
				if v == cut1 {
					continue
				}
				lo := 0
				if v > cut1 {
					lo = cut1
				}
				add(lo+r.Intn(v-lo), v)
				if r.Intn(3) == 0 {
					add(lo+r.Intn(v-lo), v)
				}
			}
		default: // denser random
			p := 0.15 + 0.5*r.Float64()
			for u := 0; u < n; u++ {
				for v := u + 1; v < n; v++ {
					if r.Float64() < p {
						add(u, v)
					}
				}
			}
		}
		out(g)
	}
}

func init() {
	register(&Proto{Name: "c10", Props: []string{"C10"}, Run: c10Run, Gen: c10Gen})
	register(&Proto{Name: "c10d", Props: []string{"C10"}, Run: c10dRun, Gen: c10dGen})
}
