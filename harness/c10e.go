package main

import (
	"fmt"
	"math/rand"

	"github.com/Tom-Johnston/mamba/graph"
)

// Protocol c10e (property C10): long thin graphs with several hundred vertices (distances beyond 255), only the
// quantities that stay cheap there.
//
//	c10e n m u1 v1 ... um vm        reply: ecc=[e0 e1 ..] diam=<d> rad=<r>
//
// Oracle (independent of the model): a plain breadth-first search from every vertex on adjacency lists built from the
// request; Eccentricity, Diameter and Radius of the DenseGraph and of the SparseGraph must agree with it (-1 for a
// disconnected graph) and Distance for a sample of pairs.
func c10eBFS(adj [][]int, s int) []int {
	d := make([]int, len(adj))
	for i := range d {
		d[i] = -1
	}
	d[s] = 0
	q := []int{s}
	for len(q) > 0 {
		v := q[0]
		q = q[1:]
		for _, u := range adj[v] {
			if d[u] < 0 {
				d[u] = d[v] + 1
				q = append(q, u)
			}
		}
	}
	return d
}

func c10eRun(args []string) Result {
	g, rest := parseEG(args)
	if len(rest) != 0 {
		return Result{Out: "bad-op"}
	}
	n := g.N
	adj := make([][]int, n)
	for _, e := range g.E {
		adj[e[0]] = append(adj[e[0]], e[1])
		adj[e[1]] = append(adj[e[1]], e[0])
	}
	ecc := make([]int, n)
	dist := make([][]int, n)
	diam, rad, conn := 0, 0, true
	for s := 0; s < n; s++ {
		dist[s] = c10eBFS(adj, s)
		for _, x := range dist[s] {
			if x < 0 {
				conn = false
			}
			if x > ecc[s] {
				ecc[s] = x
			}
		}
	}
	if n > 0 {
		rad = ecc[0]
	}
	for _, e := range ecc {
		if e > diam {
			diam = e
		}
		if e < rad {
			rad = e
		}
	}
	if !conn {
		diam, rad = -1, -1
		for i := range ecc {
			ecc[i] = -1
		}
	}
	want := fmt.Sprintf("ecc=%s diam=%d rad=%d", showInts(ecc), diam, rad)
	oracle, out := "", ""
	for i, h := range []graph.Graph{g.Dense(), g.Sparse()} {
		name := []string{"DenseGraph", "SparseGraph"}[i]
		got := guard(func() string {
			return fmt.Sprintf("ecc=%s diam=%d rad=%d", showInts(graph.Eccentricity(h)), graph.Diameter(h), graph.Radius(h))
		})
		if i == 0 {
			out = got
		}
		if got != want && oracle == "" {
			oracle = fmt.Sprintf("%s on %d vertices: library says %.160s, breadth-first search says %.160s", name, n, got, want)
		}
		if n > 0 {
			for _, pr := range [][2]int{{0, n - 1}, {n / 2, n - 1}, {n - 1, 0}, {n / 3, 2 * n / 3}} {
				d := guard(func() string { return fmt.Sprint(graph.Distance(h, pr[0], pr[1])) })
				if d != fmt.Sprint(dist[pr[0]][pr[1]]) && oracle == "" {
					oracle = fmt.Sprintf("%s on %d vertices: Distance(%d, %d) = %s, breadth-first search says %d", name, n, pr[0], pr[1], d, dist[pr[0]][pr[1]])
				}
			}
		}
	}
	tags := []string{"long", fmt.Sprintf("diam>=256:%v", diam >= 256)}
	if n >= 3 {
		tags = append(tags, "nontrivial")
	}
	return Result{Out: out, Oracle: oracle, Tags: tags}
}

func c10eGen(r *rand.Rand, tier string, emit func(string)) {
	cases := 4
	if tier == "thorough" {
		cases = 24
	}
	for c := 0; c < cases; c++ {
		n := []int{257, 258, 300, 520}[c%4] + r.Intn(3)*(c/4)
		g := EG{N: n}
		switch c % 3 {
		case 0: // path
			for i := 0; i+1 < n; i++ {
				g.E = append(g.E, [2]int{i, i + 1})
			}
		case 1: // path with short pendant paths and a few triangles
			m := n - n/10
			for i := 0; i+1 < m; i++ {
				g.E = append(g.E, [2]int{i, i + 1})
			}
			for v := m; v < n; v++ {
				a := r.Intn(m - 1)
				g.E = append(g.E, [2]int{a, v})
				if r.Intn(2) == 0 {
					g.E = append(g.E, [2]int{a + 1, v})
				}
			}
		default: // long cycle (n = 520 and more: diameter 260)
			for i := 0; i < n; i++ {
				g.E = append(g.E, [2]int{i, (i + 1) % n})
			}
		}
		g = g.norm()
		if r.Intn(2) == 0 {
			g = g.Relabel(r.Perm(n))
		}
		emit("c10e " + g.norm().Tokens())
	}
}

func init() {
	register(&Proto{Name: "c10e", Props: []string{"C10"}, Run: c10eRun, Gen: c10eGen})
}
