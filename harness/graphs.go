package main

import (
	"fmt"
	"math/rand"
	"strconv"
	"strings"

	"github.com/Tom-Johnston/mamba/graph"
)

// Shared graph helpers for the protocol files.
// Line encoding of a graph (same as lean/Mamba/Spec/Graph.lean): n m u1 v1 ... um vm

// EG is a plain edge-list graph, independent of the code under test.
type EG struct {
	N int
	E [][2]int // u < v, in the order 01 02 12 03 13 23 ...
}

func (g EG) Adj() [][]bool {
	a := make([][]bool, g.N)
	for i := range a {
		a[i] = make([]bool, g.N)
	}
	for _, e := range g.E {
		a[e[0]][e[1]] = true
		a[e[1]][e[0]] = true
	}
	return a
}

func (g EG) Tokens() string {
	var b strings.Builder
	fmt.Fprintf(&b, "%d %d", g.N, len(g.E))
	for _, e := range g.E {
		fmt.Fprintf(&b, " %d %d", e[0], e[1])
	}
	return b.String()
}

// Dense builds a *graph.DenseGraph through the byte-array constructor.
func (g EG) Dense() *graph.DenseGraph {
	edges := make([]byte, g.N*(g.N-1)/2)
	if g.N == 0 {
		edges = []byte{}
	}
	for _, e := range g.E {
		edges[e[1]*(e[1]-1)/2+e[0]] = 1
	}
	return graph.NewDense(g.N, edges)
}

// Sparse builds a *graph.SparseGraph from neighbour lists.
func (g EG) Sparse() *graph.SparseGraph {
	s := graph.NewSparse(g.N, nil)
	for _, e := range g.E {
		s.AddEdge(e[0], e[1])
	}
	return s
}

// Relabel returns the graph h with h.adj(i,j) = g.adj(p[i],p[j]) (InducedSubgraph semantics).
func (g EG) Relabel(p []int) EG {
	a := g.Adj()
	h := EG{N: len(p)}
	for v := 0; v < len(p); v++ {
		for u := 0; u < v; u++ {
			if a[p[u]][p[v]] {
				h.E = append(h.E, [2]int{u, v})
			}
		}
	}
	return h
}

// parseEG reads "n m u v ..." from the front of toks.
func parseEG(toks []string) (EG, []string) {
	n, m := atoi(toks[0]), atoi(toks[1])
	adj := map[[2]int]bool{}
	for i := 0; i < m; i++ {
		u, v := atoi(toks[2+2*i]), atoi(toks[3+2*i])
		if u > v {
			u, v = v, u
		}
		if u != v && u >= 0 && v < n {
			adj[[2]int{u, v}] = true
		}
	}
	g := EG{N: n}
	for v := 0; v < n; v++ {
		for u := 0; u < v; u++ {
			if adj[[2]int{u, v}] {
				g.E = append(g.E, [2]int{u, v})
			}
		}
	}
	return g, toks[2+2*m:]
}

// fromGraph reads any graph.Graph through IsEdge only.
func fromGraph(g graph.Graph) EG {
	n := g.N()
	h := EG{N: n}
	for v := 0; v < n; v++ {
		for u := 0; u < v; u++ {
			if g.IsEdge(u, v) {
				h.E = append(h.E, [2]int{u, v})
			}
		}
	}
	return h
}

// showEG is the canonical printed form, identical to GraphSpec.G.show in Lean.
func showEG(g EG) string {
	parts := make([]string, len(g.E))
	for i, e := range g.E {
		parts[i] = strconv.Itoa(e[0]) + "-" + strconv.Itoa(e[1])
	}
	return fmt.Sprintf("n=%d m=%d e=%s", g.N, len(g.E), strings.Join(parts, " "))
}

// fromMask: labelled graph on n vertices from the bits of mask in DenseGraph edge order.
func fromMask(n int, mask uint64) EG {
	g := EG{N: n}
	idx := uint(0)
	for v := 0; v < n; v++ {
		for u := 0; u < v; u++ {
			if mask>>idx&1 == 1 {
				g.E = append(g.E, [2]int{u, v})
			}
			idx++
		}
	}
	return g
}

func randomEG(r *rand.Rand, n int, p float64) EG {
	g := EG{N: n}
	for v := 0; v < n; v++ {
		for u := 0; u < v; u++ {
			if r.Float64() < p {
				g.E = append(g.E, [2]int{u, v})
			}
		}
	}
	return g
}

// namedEG: structured families built without the library (cycles, paths, complete, complete bipartite,
// circulants, disjoint unions, hypercubes, Petersen), used as adversarial inputs.
func namedEG(r *rand.Rand, maxN int) EG {
	n := 1 + r.Intn(maxN)
	switch r.Intn(8) {
	case 0: // cycle
		if n < 3 {
			n = 3
		}
		g := EG{N: n}
		for i := 0; i < n; i++ {
			u, v := i, (i+1)%n
			if u > v {
				u, v = v, u
			}
			g.E = append(g.E, [2]int{u, v})
		}
		return g.norm()
	case 1: // path
		g := EG{N: n}
		for i := 0; i+1 < n; i++ {
			g.E = append(g.E, [2]int{i, i + 1})
		}
		return g.norm()
	case 2: // complete
		return randomEG(r, n, 2)
	case 3: // complete bipartite a + b
		a := r.Intn(n + 1)
		g := EG{N: n}
		for u := 0; u < a; u++ {
			for v := a; v < n; v++ {
				g.E = append(g.E, [2]int{u, v})
			}
		}
		return g.norm()
	case 4: // circulant
		if n < 3 {
			n = 3
		}
		g := EG{N: n}
		seen := map[[2]int]bool{}
		for d := 1; d <= n/2; d++ {
			if r.Intn(2) == 0 {
				for i := 0; i < n; i++ {
					u, v := i, (i+d)%n
					if u > v {
						u, v = v, u
					}
					if !seen[[2]int{u, v}] {
						seen[[2]int{u, v}] = true
						g.E = append(g.E, [2]int{u, v})
					}
				}
			}
		}
		return g.norm()
	case 5: // disjoint union of two random graphs
		a := r.Intn(n + 1)
		g1, g2 := randomEG(r, a, 0.5), randomEG(r, n-a, 0.5)
		g := EG{N: n, E: append([][2]int{}, g1.E...)}
		for _, e := range g2.E {
			g.E = append(g.E, [2]int{e[0] + a, e[1] + a})
		}
		return g.norm()
	case 6: // hypercube of dim <= log2(maxN)
		d := 0
		for 1<<uint(d+1) <= maxN && d < 4 {
			d++
		}
		d = r.Intn(d + 1)
		g := EG{N: 1 << uint(d)}
		for i := 0; i < g.N; i++ {
			for j := 0; j < d; j++ {
				if k := i ^ (1 << uint(j)); i < k {
					g.E = append(g.E, [2]int{i, k})
				}
			}
		}
		return g.norm()
	default: // random tree
		g := EG{N: n}
		for v := 1; v < n; v++ {
			g.E = append(g.E, [2]int{r.Intn(v), v})
		}
		return g.norm()
	}
}

// norm sorts the edge list into DenseGraph order.
func (g EG) norm() EG {
	a := g.Adj()
	h := EG{N: g.N}
	for v := 0; v < g.N; v++ {
		for u := 0; u < v; u++ {
			if a[u][v] {
				h.E = append(h.E, [2]int{u, v})
			}
		}
	}
	return h
}

// genEG draws from a mixture: exhaustive-small masks, random densities, named families; then maybe relabels.
func genEG(r *rand.Rand, maxN int) EG {
	var g EG
	switch r.Intn(4) {
	case 0:
		n := r.Intn(min(maxN, 5) + 1)
		g = fromMask(n, r.Uint64())
	case 1:
		dens := []float64{0.1, 0.3, 0.5, 0.7, 0.9}
		g = randomEG(r, r.Intn(maxN+1), dens[r.Intn(len(dens))])
	default:
		g = namedEG(r, maxN)
	}
	if r.Intn(2) == 0 {
		g = g.Relabel(r.Perm(g.N))
	}
	return g
}

func min(a, b int) int {
	if a < b {
		return a
	}
	return b
}
