//go:build verif_nocomb

package main

import (
	"fmt"
	"os"
)

// The comb hook does not compile against this tree (harness built with -tags verif_nocomb): the tables cannot be
// regenerated; the C16 check reports this as a broken obligation, the other properties are unaffected.
func genTables(dir string) {
	fmt.Fprintln(os.Stderr, "comb hook excluded: tables not regenerated")
	os.Exit(3)
}
