//go:build !verif_nocomb

package main

import (
	"fmt"
	"os"
	"path/filepath"
	"strings"

	"github.com/Tom-Johnston/mamba/comb"
)

// `vh gen-tables <gendir>`: regenerate lean/Mamba/Gen/CombTables.lean from the comb package AS BUILT from the
// repository's working tree (through the verif hook comb.VerifTables, which reads the tables after package
// initialisation by reflection). This replaces the former go/ast reading of the composite literals, which a harmless
// reformatting of the tables (keyed array literal, rows filled by init) defeated. The file is rewritten only when its
// content changes so that lake's cache stays valid.
func genTables(dir string) {
	sizes, entries, k, maxint := comb.VerifTables()
	var b strings.Builder
	u := func(xs []uint64) string {
		ss := make([]string, len(xs))
		for i, x := range xs {
			ss[i] = fmt.Sprintf("%d", x)
		}
		return strings.Join(ss, ", ")
	}
	b.WriteString("/-! GENERATED on every run from /repo/comb (tables as built, via the verif hook comb.VerifTables) — do not edit. -/\n")
	b.WriteString("namespace Gen.Comb\n\n")
	b.WriteString("def maxSizes : Array Nat := #[" + u(sizes) + "]\n\n")
	rows := make([]string, len(entries))
	for i, r := range entries {
		rows[i] = "#[" + u(r) + "]"
	}
	b.WriteString("def smallEntries : Array (Array Nat) := #[\n  " + strings.Join(rows, ",\n  ") + "]\n\n")
	b.WriteString(fmt.Sprintf("def largestK : Nat := %d\n\n", k))
	b.WriteString(fmt.Sprintf("def maxInt : Nat := %d\n\n", maxint))
	b.WriteString("end Gen.Comb\n")
	path := filepath.Join(dir, "CombTables.lean")
	if old, err := os.ReadFile(path); err == nil && string(old) == b.String() {
		return
	}
	os.MkdirAll(dir, 0o755)
	if err := os.WriteFile(path, []byte(b.String()), 0o644); err != nil {
		fmt.Fprintln(os.Stderr, err)
		os.Exit(1)
	}
}
