package main

import (
	"fmt"
	"math/rand"
	"sort"
	"strings"
	"time"

	"github.com/Tom-Johnston/mamba/graph"
	"github.com/Tom-Johnston/mamba/graph/search"
)

// Larger n for property C03 through sparse hereditary predicates (model-independent oracles; the canonical
// labelling of graphs with >= 12 vertices is only reached this way, All(n) being infeasible there).
//
// c03big <pred> <n> <m> <place>      pred = deg2 (maximum degree <= 2) | forest
//     (quick: deg2 n <= 14, forest n <= 12; thorough: deg2 n <= 18, forest n <= 15)
//     The m shards WithPruning(n, a, m, pred@place) together must yield well-formed graphs on n vertices that
//     satisfy the predicate, pairwise non-isomorphic, and as many as there are isomorphism classes.
//     Isomorphism is decided by a complete invariant that is special to the class and independent of the library:
//     deg2: the multiset of component types (P_k, k >= 1; C_k, k >= 3); forest: the multiset of AHU codes of the
//     trees rooted at their centres.  The number of classes is the number of multisets of components of total
//     size n (an unbounded-knapsack DP over the number of connected graphs of each size in the class: 1, 1, 2, 2, ...
//     for deg2, the numbers of trees A000055 for forests); the Lean driver computes the same number: reply count=<N>.
//
// c03sub <graph6 of H> <m> <place>   predicate "is (isomorphic to) an induced subgraph of H" - hereditary by construction
//     For every k = 0..|H| the m shards WithPruning(k, a, m, pred_H@place) must yield exactly one representative of
//     every isomorphism class of k-vertex induced subgraphs of H (computed here from all k-subsets of V(H), classes
//     separated by a refinement invariant and confirmed by backtracking isomorphism tests) and nothing else; in
//     particular for k = |H| exactly one graph, isomorphic to H.  Reply top=<number of classes yielded for k = |H|>
//     (the Lean driver replies top=1).

// ---- counting multisets of components ----

// c03MultisetCount: number of multisets of total size n when there are types(k) kinds of parts of size k.
func c03MultisetCount(types func(k int) int, n int) int {
	ways := make([]int, n+1)
	ways[0] = 1
	for k := 1; k <= n; k++ {
		for t := 0; t < types(k); t++ {
			for j := k; j <= n; j++ {
				ways[j] += ways[j-k]
			}
		}
	}
	return ways[n]
}

// numbers of trees on k vertices, k = 0..18 (OEIS A000055)
var c03Trees = []int{1, 1, 1, 1, 2, 3, 6, 11, 23, 47, 106, 235, 551, 1301, 3159, 7741, 19320, 48629, 123867}

func c03BigExpected(pred string, n int) (int, bool) {
	switch pred {
	case "deg2":
		return c03MultisetCount(func(k int) int {
			if k >= 3 {
				return 2
			}
			return 1
		}, n), true
	case "forest":
		if n >= len(c03Trees) {
			return 0, false
		}
		return c03MultisetCount(func(k int) int { return c03Trees[k] }, n), true
	}
	return 0, false
}

// ---- adjacency lists read through IsEdge ----

func c03AdjList(g graph.Graph) [][]int {
	n := g.N()
	a := make([][]int, n)
	for v := 0; v < n; v++ {
		for u := 0; u < v; u++ {
			if g.IsEdge(u, v) {
				a[u] = append(a[u], v)
				a[v] = append(a[v], u)
			}
		}
	}
	return a
}

func c03Components(a [][]int) [][]int {
	n := len(a)
	seen := make([]bool, n)
	out := [][]int{}
	for s := 0; s < n; s++ {
		if seen[s] {
			continue
		}
		comp := []int{s}
		seen[s] = true
		for i := 0; i < len(comp); i++ {
			for _, u := range a[comp[i]] {
				if !seen[u] {
					seen[u] = true
					comp = append(comp, u)
				}
			}
		}
		out = append(out, comp)
	}
	return out
}

// c03Deg2Key: "" if some degree exceeds 2, otherwise the sorted component types ("P5", "C3", ...).
func c03Deg2Key(a [][]int) string {
	for _, nb := range a {
		if len(nb) > 2 {
			return ""
		}
	}
	parts := []string{}
	for _, comp := range c03Components(a) {
		e := 0
		for _, v := range comp {
			e += len(a[v])
		}
		e /= 2
		if e == len(comp) {
			parts = append(parts, fmt.Sprintf("C%02d", len(comp)))
		} else {
			parts = append(parts, fmt.Sprintf("P%02d", len(comp)))
		}
	}
	sort.Strings(parts)
	return "k:" + strings.Join(parts, " ")
}

// c03ForestKey: "" if the graph has a cycle, otherwise the sorted AHU codes of its trees (rooted at the centre).
func c03ForestKey(a [][]int) string {
	parts := []string{}
	for _, comp := range c03Components(a) {
		e := 0
		for _, v := range comp {
			e += len(a[v])
		}
		if e/2 != len(comp)-1 {
			return ""
		}
		// centres by peeling leaves
		deg := map[int]int{}
		for _, v := range comp {
			deg[v] = len(a[v])
		}
		alive := len(comp)
		layer := []int{}
		for _, v := range comp {
			if deg[v] <= 1 {
				layer = append(layer, v)
			}
		}
		removed := map[int]bool{}
		for alive > 2 {
			next := []int{}
			for _, v := range layer {
				removed[v] = true
				alive--
				for _, u := range a[v] {
					if !removed[u] {
						deg[u]--
						if deg[u] == 1 {
							next = append(next, u)
						}
					}
				}
			}
			layer = next
		}
		centres := []int{}
		for _, v := range comp {
			if !removed[v] {
				centres = append(centres, v)
			}
		}
		var code func(v, parent int) string
		code = func(v, parent int) string {
			cs := []string{}
			for _, u := range a[v] {
				if u != parent {
					cs = append(cs, code(u, v))
				}
			}
			sort.Strings(cs)
			return "(" + strings.Join(cs, "") + ")"
		}
		best := ""
		for _, c := range centres {
			s := code(c, -1)
			if best == "" || s < best {
				best = s
			}
		}
		parts = append(parts, best)
	}
	sort.Strings(parts)
	return "k:" + strings.Join(parts, " ")
}

func c03Graph6Of(g graph.Graph) string { // only for messages
	n := g.N()
	bitsv := []int{}
	for j := 1; j < n; j++ {
		for i := 0; i < j; i++ {
			if g.IsEdge(i, j) {
				bitsv = append(bitsv, 1)
			} else {
				bitsv = append(bitsv, 0)
			}
		}
	}
	for len(bitsv)%6 != 0 {
		bitsv = append(bitsv, 0)
	}
	b := []byte{byte(n + 63)}
	for i := 0; i < len(bitsv); i += 6 {
		v := 0
		for j := 0; j < 6; j++ {
			v = v<<1 | bitsv[i+j]
		}
		b = append(b, byte(v+63))
	}
	return string(b)
}

// ---- plain adjacency matrices, graph6, induced-subgraph test (all independent of the library) ----

type c03Mat [][]bool

func c03MatFromGraph6(s string) (c03Mat, bool) {
	if len(s) == 0 || s[0] < 63 || s[0] > 63+62 {
		return nil, false
	}
	n := int(s[0]) - 63
	need := (n*(n-1)/2 + 5) / 6
	if len(s) != 1+need {
		return nil, false
	}
	m := make(c03Mat, n)
	for i := range m {
		m[i] = make([]bool, n)
	}
	bit := 0
	for j := 1; j < n; j++ {
		for i := 0; i < j; i++ {
			c := int(s[1+bit/6]) - 63
			if c < 0 || c > 63 {
				return nil, false
			}
			if c>>(5-uint(bit%6))&1 == 1 {
				m[i][j], m[j][i] = true, true
			}
			bit++
		}
	}
	return m, true
}

func (m c03Mat) graph6() string {
	n := len(m)
	bitsv := []int{}
	for j := 1; j < n; j++ {
		for i := 0; i < j; i++ {
			if m[i][j] {
				bitsv = append(bitsv, 1)
			} else {
				bitsv = append(bitsv, 0)
			}
		}
	}
	for len(bitsv)%6 != 0 {
		bitsv = append(bitsv, 0)
	}
	b := []byte{byte(n + 63)}
	for i := 0; i < len(bitsv); i += 6 {
		v := 0
		for j := 0; j < 6; j++ {
			v = v<<1 | bitsv[i+j]
		}
		b = append(b, byte(v+63))
	}
	return string(b)
}

func c03MatOf(g graph.Graph) c03Mat {
	n := g.N()
	m := make(c03Mat, n)
	for i := range m {
		m[i] = make([]bool, n)
	}
	for j := 1; j < n; j++ {
		for i := 0; i < j; i++ {
			if g.IsEdge(i, j) {
				m[i][j], m[j][i] = true, true
			}
		}
	}
	return m
}

func (m c03Mat) degrees() []int {
	d := make([]int, len(m))
	for i := range m {
		for j := range m {
			if m[i][j] {
				d[i]++
			}
		}
	}
	return d
}

func (m c03Mat) induced(vs []int) c03Mat {
	r := make(c03Mat, len(vs))
	for i := range vs {
		r[i] = make([]bool, len(vs))
		for j := range vs {
			r[i][j] = m[vs[i]][vs[j]]
		}
	}
	return r
}

// c03Embeds: g is isomorphic to an induced subgraph of h (backtracking, pruned by degrees).
func c03Embeds(g, h c03Mat, gd, hd []int) bool {
	n, hn := len(g), len(h)
	if n > hn {
		return false
	}
	img := make([]int, n)
	used := make([]bool, hn)
	var rec func(i int) bool
	rec = func(i int) bool {
		if i == n {
			return true
		}
		for c := 0; c < hn; c++ {
			if used[c] || hd[c] < gd[i] || (n == hn && hd[c] != gd[i]) {
				continue
			}
			ok := true
			for j := 0; j < i; j++ {
				if g[i][j] != h[c][img[j]] {
					ok = false
					break
				}
			}
			if ok {
				img[i] = c
				used[c] = true
				if rec(i + 1) {
					return true
				}
				used[c] = false
			}
		}
		return false
	}
	return rec(0)
}

// c03Invariant: an isomorphism invariant (two rounds of degree refinement), used only to bucket candidates.
func c03Invariant(m c03Mat) string {
	n := len(m)
	col := m.degrees()
	for round := 0; round < 2; round++ {
		sig := make([]string, n)
		for v := 0; v < n; v++ {
			nb := []int{}
			for u := 0; u < n; u++ {
				if m[v][u] {
					nb = append(nb, col[u])
				}
			}
			sort.Ints(nb)
			sig[v] = fmt.Sprint(col[v], nb)
		}
		// rename signatures by rank
		uniq := append([]string{}, sig...)
		sort.Strings(uniq)
		rank := map[string]int{}
		for _, s := range uniq {
			if _, ok := rank[s]; !ok {
				rank[s] = len(rank)
			}
		}
		for v := 0; v < n; v++ {
			col[v] = rank[sig[v]]
		}
		if round == 1 {
			sort.Strings(sig)
			return strings.Join(sig, ";")
		}
	}
	return ""
}

func c03Iso(a, b c03Mat) bool {
	if len(a) != len(b) {
		return false
	}
	return c03Embeds(a, b, a.degrees(), b.degrees())
}

// c03SubClasses: representatives of the isomorphism classes of the k-vertex induced subgraphs of h.
func c03SubClasses(h c03Mat, k int) map[string][]c03Mat {
	n := len(h)
	classes := map[string][]c03Mat{}
	vs := make([]int, 0, k)
	var rec func(start int)
	rec = func(start int) {
		if len(vs) == k {
			g := h.induced(vs)
			key := c03Invariant(g)
			for _, r := range classes[key] {
				if c03Iso(g, r) {
					return
				}
			}
			classes[key] = append(classes[key], g)
			return
		}
		for v := start; v <= n-(k-len(vs)); v++ {
			vs = append(vs, v)
			rec(v + 1)
			vs = vs[:len(vs)-1]
		}
	}
	rec(0)
	return classes
}

// ---- named graphs for c03sub (built here, not by the library) ----

func c03FromEdges(n int, es [][2]int) c03Mat {
	m := make(c03Mat, n)
	for i := range m {
		m[i] = make([]bool, n)
	}
	for _, e := range es {
		if e[0] != e[1] {
			m[e[0]][e[1]], m[e[1]][e[0]] = true, true
		}
	}
	return m
}

func c03LCF(n int, jumps []int) c03Mat {
	es := [][2]int{}
	for i := 0; i < n; i++ {
		es = append(es, [2]int{i, (i + 1) % n})
		j := jumps[i%len(jumps)]
		es = append(es, [2]int{i, ((i+j)%n + n) % n})
	}
	return c03FromEdges(n, es)
}

func c03GenPetersen(n, k int) c03Mat {
	es := [][2]int{}
	for i := 0; i < n; i++ {
		es = append(es, [2]int{i, (i + 1) % n}, [2]int{i, n + i}, [2]int{n + i, n + (i+k)%n})
	}
	return c03FromEdges(2*n, es)
}

func c03Circulant(n int, ds []int) c03Mat {
	es := [][2]int{}
	for i := 0; i < n; i++ {
		for _, d := range ds {
			es = append(es, [2]int{i, (i + d) % n})
		}
	}
	return c03FromEdges(n, es)
}

func c03Grid(r, c int) c03Mat {
	es := [][2]int{}
	for i := 0; i < r; i++ {
		for j := 0; j < c; j++ {
			if j+1 < c {
				es = append(es, [2]int{i*c + j, i*c + j + 1})
			}
			if i+1 < r {
				es = append(es, [2]int{i*c + j, (i+1)*c + j})
			}
		}
	}
	return c03FromEdges(r*c, es)
}

// the two witnesses of the seeded generator defect first, then triangle-free / cubic / strongly regular graphs
func c03NamedH() []string {
	hs := []string{"K_Kp?_BACEge", "K`?HOggDCEGF"}
	for _, m := range []c03Mat{
		c03GenPetersen(5, 2),     // Petersen, srg(10,3,0,1)
		c03GenPetersen(6, 2),     // Duerer graph, cubic, 12 vertices
		c03LCF(12, []int{5, -5}), // Franklin graph, cubic bipartite
		c03LCF(12, []int{-5, -2, -4, 2, 5, -2, 2, 5, -2, -5, 4, 2}), // Frucht graph, cubic, asymmetric
		c03LCF(12, []int{2, 6, -2}),                                 // truncated tetrahedron
		c03LCF(12, []int{6}),                                        // Moebius ladder M12
		c03Circulant(13, []int{1, 3, 4}),                            // Paley graph srg(13,6,2,3)
		c03Circulant(13, []int{1, 5}),                               // 4-regular triangle-free circulant
		c03Circulant(13, []int{1}),                                  // C13
		c03Circulant(11, []int{1, 3}),                               // 4-regular circulant on 11 vertices
		c03Grid(3, 4),                                               // 3 x 4 grid, bipartite
		c03GenPetersen(6, 1),                                        // hexagonal prism
		c03Circulant(10, []int{1, 4}),                               // 4-regular circulant, 10 vertices
	} {
		hs = append(hs, m.graph6())
	}
	return hs
}

func c03RandomSparse(r *rand.Rand) string {
	n := 9 + r.Intn(4)
	p := 0.18 + 0.2*r.Float64()
	es := [][2]int{}
	for v := 0; v < n; v++ {
		for u := 0; u < v; u++ {
			if r.Float64() < p {
				es = append(es, [2]int{u, v})
			}
		}
	}
	return c03FromEdges(n, es).graph6()
}

func init() {
	register(&Proto{
		Name:    "c03big",
		Props:   []string{"C03"},
		Timeout: 900 * time.Second,
		Run: func(args []string) Result {
			if len(args) != 4 {
				return Result{Out: "bad-op"}
			}
			pname, n, m, place := args[0], atoi(args[1]), atoi(args[2]), args[3]
			want, ok := c03BigExpected(pname, n)
			if !ok || m < 1 {
				return Result{Out: "bad-op"}
			}
			key := c03Deg2Key
			if pname == "forest" {
				key = c03ForestKey
			}
			prunef := func(g *graph.DenseGraph) bool { return key(c03AdjList(g)) == "" }
			no := func(*graph.DenseGraph) bool { return false }
			pre, pr := no, no
			switch place {
			case "pre":
				pre = prunef
			case "prune":
				pr = prunef
			case "both":
				pre, pr = prunef, prunef
			default:
				return Result{Out: "bad-op"}
			}
			cfg := fmt.Sprintf("WithPruning(n=%d, %s as %s, m=%d)", n, pname, place, m)
			oracle := ""
			fail := func(f string, a ...interface{}) {
				if oracle == "" {
					oracle = cfg + ": " + fmt.Sprintf(f, a...)
				}
			}
			seen := map[string]string{}
			total := 0
			sizes := []int{}
			for a := 0; a < m; a++ {
				it := search.WithPruning(n, a, m, pre, pr)
				cnt := 0
				for it.Next() {
					g := it.Value()
					cnt++
					total++
					if msg := c03WF(g, n); msg != "" {
						fail("shard %d yields a value that is not a well-formed graph on %d vertices: %s", a, n, msg)
					}
					k := key(c03AdjList(g))
					if k == "" {
						fail("yielded graph %s does not satisfy %s", c03Graph6Of(g), pname)
						continue
					}
					g6 := c03Graph6Of(g)
					if prev, dup := seen[k]; dup {
						fail("yielded graphs %s and %s are isomorphic (components %s)", prev, g6, k[2:])
					} else {
						seen[k] = g6
					}
				}
				sizes = append(sizes, cnt)
			}
			if len(seen) != want || total != want {
				fail("%d graphs in %d isomorphism classes yielded by the %d shards (sizes %v); there are %d classes of %s graphs on %d vertices", total, len(seen), m, sizes, want, pname, n)
			}
			tags := []string{"big-" + pname, "place-" + place, fmt.Sprintf("n%d", n), fmt.Sprintf("m%d", m), "nontrivial"}
			return Result{Out: fmt.Sprintf("count=%d", len(seen)), Oracle: oracle, Tags: tags}
		},
		Gen: func(r *rand.Rand, tier string, emit func(string)) {
			maxDeg2, maxForest := 13, 12
			if tier == "thorough" {
				maxDeg2, maxForest = 18, 15
			}
			for n := 0; n <= maxDeg2; n++ {
				for _, pl := range []string{"pre", "prune"} {
					for _, m := range []int{1, 3} {
						emit(fmt.Sprintf("c03big deg2 %d %d %s", n, m, pl))
					}
				}
			}
			for n := 0; n <= maxForest; n++ {
				if tier != "thorough" && n > 3 && n < maxForest && r.Intn(3) != 0 {
					continue
				}
				emit(fmt.Sprintf("c03big forest %d %d %s", n, 1+2*r.Intn(2), []string{"pre", "prune", "both"}[r.Intn(3)]))
			}
			if tier == "thorough" {
				emit("c03big forest 15 3 prune")
			} else {
				emit(fmt.Sprintf("c03big deg2 14 %d %s", 1+2*r.Intn(2), []string{"pre", "prune"}[r.Intn(2)]))
			}
		},
	})

	register(&Proto{
		Name:    "c03sub",
		Props:   []string{"C03"},
		Timeout: 900 * time.Second,
		Run: func(args []string) Result {
			if len(args) != 3 {
				return Result{Out: "bad-op"}
			}
			h, ok := c03MatFromGraph6(args[0])
			m, place := atoi(args[1]), args[2]
			if !ok || m < 1 || len(h) > 16 {
				return Result{Out: "bad-op"}
			}
			hd := h.degrees()
			memo := map[string]bool{}
			prunef := func(g *graph.DenseGraph) bool {
				gm := c03MatOf(g)
				k := gm.graph6()
				if v, ok := memo[k]; ok {
					return v
				}
				v := !c03Embeds(gm, h, gm.degrees(), hd)
				memo[k] = v
				return v
			}
			no := func(*graph.DenseGraph) bool { return false }
			pre, pr := no, no
			switch place {
			case "pre":
				pre = prunef
			case "prune":
				pr = prunef
			case "both":
				pre, pr = prunef, prunef
			default:
				return Result{Out: "bad-op"}
			}
			oracle := ""
			top := 0
			for k := 0; k <= len(h); k++ {
				cfg := fmt.Sprintf("WithPruning(n=%d, 'induced subgraph of %s' as %s, m=%d)", k, args[0], place, m)
				fail := func(f string, a ...interface{}) {
					if oracle == "" {
						oracle = cfg + ": " + fmt.Sprintf(f, a...)
					}
				}
				classes := c03SubClasses(h, k)
				nclasses := 0
				for _, reps := range classes {
					nclasses += len(reps)
				}
				hit := map[string][]string{} // invariant -> graph6 of the yielded graph per representative index
				for key, reps := range classes {
					hit[key] = make([]string, len(reps))
				}
				yielded, distinct := 0, 0
				for a := 0; a < m; a++ {
					it := search.WithPruning(k, a, m, pre, pr)
					for it.Next() {
						g := it.Value()
						yielded++
						if msg := c03WF(g, k); msg != "" {
							fail("yields a value that is not a well-formed graph on %d vertices: %s", k, msg)
						}
						gm := c03MatOf(g)
						key := c03Invariant(gm)
						found := false
						for i, rep := range classes[key] {
							if c03Iso(gm, rep) {
								found = true
								if hit[key][i] != "" {
									fail("yielded graphs %s and %s are isomorphic", hit[key][i], gm.graph6())
								} else {
									hit[key][i] = gm.graph6()
									distinct++
								}
								break
							}
						}
						if !found {
							fail("yielded graph %s is not an induced subgraph of H", gm.graph6())
						}
					}
				}
				if distinct != nclasses {
					missing := ""
					for key, reps := range classes {
						for i, rep := range reps {
							if hit[key][i] == "" && missing == "" {
								missing = rep.graph6()
							}
						}
					}
					fail("yielded %d graphs in %d of the %d isomorphism classes of %d-vertex induced subgraphs of H; e.g. the class of %s is missing", yielded, distinct, nclasses, k, missing)
				}
				if k == len(h) {
					top = distinct
				}
			}
			tags := []string{"sub", "place-" + place, fmt.Sprintf("n%d", len(h)), fmt.Sprintf("m%d", m), "nontrivial"}
			return Result{Out: fmt.Sprintf("top=%d", top), Oracle: oracle, Tags: tags}
		},
		Gen: func(r *rand.Rand, tier string, emit func(string)) {
			hs := c03NamedH()
			places := []string{"pre", "prune"}
			for i, h := range hs {
				if i < 2 || tier == "thorough" {
					for _, pl := range places {
						for _, m := range []int{1, 3} {
							emit(fmt.Sprintf("c03sub %s %d %s", h, m, pl))
						}
					}
				} else {
					emit(fmt.Sprintf("c03sub %s %d %s", h, 1+2*r.Intn(2), places[r.Intn(2)]))
				}
			}
			nr := 3
			if tier == "thorough" {
				nr = 12
			}
			for i := 0; i < nr; i++ {
				emit(fmt.Sprintf("c03sub %s %d %s", c03RandomSparse(r), 1+r.Intn(3), []string{"pre", "prune", "both"}[r.Intn(3)]))
			}
		},
	})
}
