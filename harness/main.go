// Command vh is the implementation side of the correspondence check.
//
//	vh gen <PROPERTY> <seed> <tier>        print request lines for the property's streams
//	vh run [-oracle f] [-stats f]          read request lines on stdin, run the real mamba code on each,
//	                                       print one reply line per request (same protocol as lean/mdrv)
//
// Every request line is self-contained (a whole case / operation history), so any single line is a replay.
// The first token of a line names the sub-protocol. Each sub-protocol has:
//   - Run: executes the real code (panics are recovered and reported as "panic"),
//     and evaluates the property-level oracle on the implementation's own output, independently of the
//     Lean model (round trip, brute force, math/big, ...); a non-empty Oracle string is a property failure.
//   - Gen: emits request lines from a single PRNG state.
package main

import (
	"bufio"
	"encoding/json"
	"flag"
	"fmt"
	"math/rand"
	"os"
	"sort"
	"strconv"
	"strings"
	"syscall"
	"time"
)

// Result of running one request on the implementation.
type Result struct {
	Out    string   // canonicalised reply line (compared with the model's reply)
	Oracle string   // "" or a description of how the implementation's output violates the property
	Tags   []string // branch / category labels, counted into the evidence distribution
}

type Proto struct {
	Name    string
	Props   []string // properties whose streams include this protocol
	Run     func(args []string) Result
	Gen     func(r *rand.Rand, tier string, emit func(string))
	Timeout time.Duration
}

var protos = map[string]*Proto{}

func register(p *Proto) {
	if p.Timeout == 0 {
		p.Timeout = 20 * time.Second
	}
	protos[p.Name] = p
}

func runOne(line string) (res Result) {
	f := strings.Fields(line)
	if len(f) == 0 {
		return Result{Out: "bad-op"}
	}
	p, ok := protos[f[0]]
	if !ok {
		return Result{Out: "bad-op"}
	}
	done := make(chan Result, 1)
	go func() {
		defer func() {
			if e := recover(); e != nil {
				done <- Result{Out: "panic", Tags: []string{"panic"}, Oracle: ""}
			}
		}()
		done <- p.Run(f[1:])
	}()
	select {
	case r := <-done:
		return r
	case <-time.After(p.Timeout):
		return Result{Out: "timeout", Oracle: "operation did not terminate within " + p.Timeout.String(), Tags: []string{"timeout"}}
	}
}

// guard runs f and converts a panic into ("panic", true).
func guard(f func() string) (out string) {
	defer func() {
		if e := recover(); e != nil {
			out = "panic"
		}
	}()
	return f()
}

func main() {
	if len(os.Args) < 2 {
		fmt.Fprintln(os.Stderr, "usage: vh gen|run ...")
		os.Exit(2)
	}
	switch os.Args[1] {
	case "gen":
		if len(os.Args) < 5 {
			fmt.Fprintln(os.Stderr, "usage: vh gen PROPERTY seed tier")
			os.Exit(2)
		}
		prop := os.Args[2]
		seed, _ := strconv.ParseInt(os.Args[3], 10, 64)
		tier := os.Args[4]
		w := bufio.NewWriterSize(os.Stdout, 1<<20)
		defer w.Flush()
		names := []string{}
		for n, p := range protos {
			for _, q := range p.Props {
				if q == prop {
					names = append(names, n)
				}
			}
		}
		sort.Strings(names)
		for i, n := range names {
			r := rand.New(rand.NewSource(seed*1000003 + int64(i)))
			protos[n].Gen(r, tier, func(s string) { w.WriteString(s); w.WriteByte('\n') })
		}
	case "run":
		fs := flag.NewFlagSet("run", flag.ExitOnError)
		oracleF := fs.String("oracle", "", "file for oracle failures (lineno<TAB>message)")
		statsF := fs.String("stats", "", "file for tag counts (json)")
		resumeF := fs.String("resume", "", "internal: file with the remaining request lines after a timed-out request")
		offset := fs.Int("offset", 0, "internal: number of request lines already answered")
		fs.Parse(os.Args[2:])
		// read every request first: after a request that does not return, the process re-executes itself on the
		// remaining lines (a goroutine that never returns cannot be killed and would starve or exhaust the rest)
		var in *os.File = os.Stdin
		if *resumeF != "" {
			f, err := os.Open(*resumeF)
			if err != nil {
				panic(err)
			}
			in = f
		}
		var lines []string
		sc := bufio.NewScanner(in)
		sc.Buffer(make([]byte, 1<<20), 1<<28)
		for sc.Scan() {
			lines = append(lines, sc.Text())
		}
		if *resumeF != "" {
			in.Close()
			os.Remove(*resumeF)
		}
		var ow *bufio.Writer
		var of *os.File
		if *oracleF != "" {
			flags := os.O_CREATE | os.O_WRONLY | os.O_TRUNC
			if *resumeF != "" {
				flags = os.O_CREATE | os.O_WRONLY | os.O_APPEND
			}
			f, err := os.OpenFile(*oracleF, flags, 0o644)
			if err != nil {
				panic(err)
			}
			of = f
			ow = bufio.NewWriter(f)
		}
		stats := map[string]int{}
		if *resumeF != "" && *statsF != "" {
			if b, err := os.ReadFile(*statsF); err == nil {
				json.Unmarshal(b, &stats)
			}
		}
		w := bufio.NewWriterSize(os.Stdout, 1<<20)
		flushEach := os.Getenv("VH_FLUSH") == "1" // used by the check to locate a request that kills the process
		finish := func() {
			w.Flush()
			if ow != nil {
				ow.Flush()
				of.Close()
			}
			if *statsF != "" {
				b, _ := json.Marshal(stats)
				os.WriteFile(*statsF, b, 0o644)
			}
		}
		for k, line := range lines {
			ln := *offset + k + 1
			res := runOne(line)
			w.WriteString(res.Out)
			w.WriteByte('\n')
			if res.Oracle != "" && ow != nil {
				fmt.Fprintf(ow, "%d\t%s\n", ln, strings.ReplaceAll(res.Oracle, "\n", " "))
			}
			for _, t := range res.Tags {
				stats[t]++
			}
			if flushEach {
				w.Flush()
			}
			if res.Out == "timeout" && k+1 < len(lines) {
				tmp, err := os.CreateTemp("", "vh-resume-*.txt")
				if err == nil {
					bw := bufio.NewWriter(tmp)
					for _, l := range lines[k+1:] {
						bw.WriteString(l)
						bw.WriteByte('\n')
					}
					bw.Flush()
					tmp.Close()
					finish()
					self, _ := os.Executable()
					args := []string{self, "run", "-resume", tmp.Name(), "-offset", strconv.Itoa(ln)}
					if *oracleF != "" {
						args = append(args, "-oracle", *oracleF)
					}
					if *statsF != "" {
						args = append(args, "-stats", *statsF)
					}
					syscall.Exec(self, args, os.Environ())
					// exec failed: fall through and keep going in this process
					w = bufio.NewWriterSize(os.Stdout, 1<<20)
					if *oracleF != "" {
						of, _ = os.OpenFile(*oracleF, os.O_CREATE|os.O_WRONLY|os.O_APPEND, 0o644)
						ow = bufio.NewWriter(of)
					}
				}
			}
		}
		finish()
	case "protos":
		names := []string{}
		for n := range protos {
			names = append(names, n)
		}
		sort.Strings(names)
		fmt.Println(strings.Join(names, " "))
	case "gen-tables":
		if len(os.Args) < 3 {
			fmt.Fprintln(os.Stderr, "usage: vh gen-tables gendir")
			os.Exit(2)
		}
		genTables(os.Args[2])
	default:
		fmt.Fprintln(os.Stderr, "unknown command")
		os.Exit(2)
	}
}

// ---- small helpers shared by the protocol files ----

func atoi(s string) int {
	v, err := strconv.Atoi(s)
	if err != nil {
		panic("bad int " + s)
	}
	return v
}

func atois(ss []string) []int {
	out := make([]int, len(ss))
	for i, s := range ss {
		out[i] = atoi(s)
	}
	return out
}

func showInts(a []int) string {
	var b strings.Builder
	b.WriteByte('[')
	for i, v := range a {
		if i > 0 {
			b.WriteByte(' ')
		}
		b.WriteString(strconv.Itoa(v))
	}
	b.WriteByte(']')
	return b.String()
}

func joinInts(a []int) string {
	ss := make([]string, len(a))
	for i, v := range a {
		ss[i] = strconv.Itoa(v)
	}
	return strings.Join(ss, " ")
}

// splitTok splits a token list at every occurrence of sep.
func splitTok(args []string, sep string) [][]string {
	out := [][]string{}
	cur := []string{}
	for _, a := range args {
		if a == sep {
			out = append(out, cur)
			cur = []string{}
		} else {
			cur = append(cur, a)
		}
	}
	return append(out, cur)
}
