package main

import (
	"bufio"
	"bytes"
	"fmt"
	"io"
	"math/bits"
	"math/rand"
	"sort"
	"strconv"
	"strings"
	"time"

	"github.com/Tom-Johnston/mamba/graph"
	"github.com/Tom-Johnston/mamba/graph/search"
)

// Protocol c04seq (property C04, also listed for C03 because the same model carries the shard theorem):
//
//	c04seq <n> <pred> <place> cfg <a>,<m>,<k1>.<k2>... ... tab <entry> ...
//
// For every cfg: a fresh iterator WithPruning(n, a, m, pred@place) is advanced k1 times, saved, loaded, the LOADED
// iterator is advanced k2 times, saved, loaded, ... and finally run to exhaustion.  Reply: for every cfg
// "a/m:<number yielded>:<masks of all graphs yielded along the way, in order>" joined by ';'.
//
// The Lean side runs the model of Next/addAugmentations/isCanonical/Save/Load (Mamba/Model/Search.lean) on the same
// line; the model is parametric in the canonical-labelling oracle and gets the real library's answers from the table
// after "tab":  <nv>:<mask>:<vb|->:<perm|x>:<orbits>:<gens>   (digits for perm / generators, comma separated ints for
// the raw orbit array, generators separated by '.'; perm "x" = the early exit nil,nil,nil).  The table is a superset of
// what any cfg of the line can ask (all level < n graphs of the m = 1 search, all their extensions by <= mindeg+1
// neighbours whose degree tests do not already decide isCanonical).  The Go side ignores the table.
//
// Oracle (model independent; the statement of C04 evaluated on the implementation):
// for every cfg whose full output has <= c04MaxHist graphs, at EVERY position k = 0..len+1 (k Next calls made):
//   Save -> Load -> remaining outputs of the loaded iterator == remaining outputs of the original (same order);
//   the original continues undisturbed after Save; the two iterators are independent in both directions; the saved
//   bytes can be overwritten after Load; loading the same bytes twice gives the same remainder; random chains.
// for every request additionally (c04Stream): k >= 2 saves — different shards at different positions, and one iterator
//   saved, advanced and saved again — are written back to back into ONE stream; they are loaded one after the other
//   from a bytes.Buffer, a bytes.Reader, a caller-side bufio.Reader and a plain io.Reader that hands out one byte per
//   Read; every loaded iterator must resume with exactly its remainder and every Load must consume exactly its own
//   save (the rest of the stream intact).

const c04MaxHist = 2500

type c04Cfg struct {
	a, m int
	ks   []int
}

func c04Save(it *search.GraphIterator) []byte {
	var buf bytes.Buffer
	it.Save(&buf)
	return buf.Bytes()
}

// c04Step advances once and returns (mask, true) or (0, false)
func c04Step(it *search.GraphIterator) (uint64, bool) {
	if it.Next() {
		return c03MaskOf(it.Value()), true
	}
	return 0, false
}

func c04Rest(it *search.GraphIterator) []uint64 {
	out := []uint64{}
	for it.Next() {
		out = append(out, c03MaskOf(it.Value()))
	}
	return out
}

func c04Eq(a, b []uint64) bool {
	if len(a) != len(b) {
		return false
	}
	for i := range a {
		if a[i] != b[i] {
			return false
		}
	}
	return true
}

func c04Tail(full []uint64, k int) []uint64 {
	if k > len(full) {
		k = len(full)
	}
	return full[k:]
}

func c04Brief(ms []uint64) string {
	if len(ms) > 12 {
		return fmt.Sprintf("%d graphs starting %s,...", len(ms), c03ShowMasks(ms[:12]))
	}
	return fmt.Sprintf("%d graphs [%s]", len(ms), c03ShowMasks(ms))
}

// c04History is the direct check of C04 on one configuration.  Returns "" or a description of the first failure.
func c04History(n, a, m int, pname, place string, r *rand.Rand) (msg string, positions int, full []uint64) {
	p, _ := c03PredByName(pname)
	pre, pr := c03Funcs(p, place)
	mk := func() *search.GraphIterator { return search.WithPruning(n, a, m, pre, pr) }
	cfg := fmt.Sprintf("WithPruning(n=%d,a=%d,m=%d,%s as %s)", n, a, m, pname, place)
	defer func() {
		if e := recover(); e != nil {
			msg = fmt.Sprintf("%s: panic during the save/load history at position %d: %v", cfg, positions, e)
		}
	}()
	full = c04Rest(mk())
	L := len(full)
	ks := []int{}
	if L <= c04MaxHist {
		for k := 0; k <= L+1; k++ {
			ks = append(ks, k)
		}
	} else { // sampled positions: both ends and random interior points
		seen := map[int]bool{}
		for _, k := range []int{0, 1, 2, L - 1, L, L + 1} {
			seen[k] = true
		}
		for len(seen) < 40 {
			seen[r.Intn(L+1)] = true
		}
		for k := range seen {
			ks = append(ks, k)
		}
		sort.Ints(ks)
	}
	// the walker is the "original": it is saved at every position and must nevertheless produce `full`.
	walker := mk()
	pos := 0
	for _, k := range ks {
		for pos < k {
			v, ok := c04Step(walker)
			if pos < L && (!ok || v != full[pos]) {
				return fmt.Sprintf("%s: the original iterator was disturbed by earlier Save/Load calls: output #%d is %v/%v, expected %d", cfg, pos, v, ok, full[pos]), positions, full
			}
			if pos >= L && ok {
				return fmt.Sprintf("%s: the original iterator yields again after exhaustion (call #%d) once it has been saved", cfg, pos), positions, full
			}
			pos++
		}
		positions++
		saved := c04Save(walker)
		keep := append([]byte(nil), saved...)
		loaded := search.Load(bytes.NewReader(saved), pre, pr)
		for i := range saved { // the loaded iterator must not depend on the bytes it was read from
			saved[i] ^= 0xa5
		}
		want := c04Tail(full, k)
		switch k % 3 {
		case 0:
			// loaded runs to the end while the original is parked at k
			if got := c04Rest(loaded); !c04Eq(got, want) {
				return fmt.Sprintf("%s: Save after %d Next calls then Load resumes with %s but the original continues with %s", cfg, k, c04Brief(got), c04Brief(want)), positions, full
			}
		case 1:
			// the original moves first (one step), the loaded iterator must not notice
			v, ok := c04Step(walker)
			if pos < L && (!ok || v != full[pos]) {
				return fmt.Sprintf("%s: after Save at position %d the original yields %v/%v, expected %d", cfg, k, v, ok, full[pos]), positions, full
			}
			if pos >= L && ok {
				return fmt.Sprintf("%s: after Save at position %d (exhausted) the original yields another graph", cfg, k), positions, full
			}
			pos++
			if got := c04Rest(loaded); !c04Eq(got, want) {
				return fmt.Sprintf("%s: Save after %d Next calls, original advanced once, then the loaded iterator yields %s, expected %s (not independent or not resumed)", cfg, k, c04Brief(got), c04Brief(want)), positions, full
			}
		default:
			// interleave: loaded one step, original one step, loaded the rest
			v, ok := c04Step(loaded)
			if len(want) > 0 && (!ok || v != want[0]) || len(want) == 0 && ok {
				return fmt.Sprintf("%s: Save after %d Next calls then Load: first resumed output %v/%v, expected %s", cfg, k, v, ok, c04Brief(want)), positions, full
			}
			v, ok = c04Step(walker)
			if pos < L && (!ok || v != full[pos]) || pos >= L && ok {
				return fmt.Sprintf("%s: the original was disturbed by advancing the iterator loaded at position %d: yields %v/%v", cfg, k, v, ok), positions, full
			}
			pos++
			got := c04Rest(loaded)
			if !c04Eq(got, c04Tail(want, 1)) {
				return fmt.Sprintf("%s: Save after %d Next calls, interleaved advance: loaded iterator continues with %s, expected %s", cfg, k, c04Brief(got), c04Brief(c04Tail(want, 1))), positions, full
			}
		}
		// the saved bytes are a value: loading the untouched copy later gives the same remainder
		if k%7 == 0 || L <= 60 {
			again := search.Load(bytes.NewReader(keep), pre, pr)
			if got := c04Rest(again); !c04Eq(got, want) {
				return fmt.Sprintf("%s: loading the bytes saved at position %d a second time yields %s, expected %s", cfg, k, c04Brief(got), c04Brief(want)), positions, full
			}
		}
	}
	for pos <= L { // finish the walker
		v, ok := c04Step(walker)
		if pos < L && (!ok || v != full[pos]) || pos >= L && ok {
			return fmt.Sprintf("%s: the original iterator was disturbed by Save: output #%d is %v/%v", cfg, pos, v, ok), positions, full
		}
		pos++
	}
	// random chains save -> load -> advance -> save -> load ...
	for c := 0; c < 6; c++ {
		it := mk()
		at := 0
		desc := []string{}
		for at <= L && len(desc) < 8 {
			step := r.Intn(L/3 + 2)
			desc = append(desc, strconv.Itoa(step))
			for i := 0; i < step; i++ {
				v, ok := c04Step(it)
				if at < L && (!ok || v != full[at]) || at >= L && ok {
					return fmt.Sprintf("%s: chain of save/load with advances %s: output #%d is %v/%v, expected the original's output", cfg, strings.Join(desc, ","), at, v, ok), positions, full
				}
				at++
			}
			it = search.Load(bytes.NewReader(c04Save(it)), pre, pr)
		}
		if got := c04Rest(it); !c04Eq(got, c04Tail(full, at)) {
			return fmt.Sprintf("%s: chain of save/load with advances %s: remaining outputs %s, expected %s", cfg, strings.Join(desc, ","), c04Brief(got), c04Brief(c04Tail(full, at))), positions, full
		}
	}
	return "", positions, full
}

// c04OneByte hands out one byte per Read and is nothing but an io.Reader.
type c04OneByte struct {
	data []byte
	pos  int
}

func (o *c04OneByte) Read(p []byte) (int, error) {
	if o.pos >= len(o.data) {
		return 0, io.EOF
	}
	if len(p) == 0 {
		return 0, nil
	}
	p[0] = o.data[o.pos]
	o.pos++
	return 1, nil
}

type c04Shard struct {
	a, m int
	full []uint64
}

// c04Stream: several saved states in ONE stream, loaded one after the other.  Returns "" or the first failure.
func c04Stream(n int, shards []c04Shard, pname, place string, r *rand.Rand) (msg string) {
	if len(shards) == 0 {
		return ""
	}
	p, _ := c03PredByName(pname)
	pre, pr := c03Funcs(p, place)
	type rec struct {
		desc string
		want []uint64
		size int
	}
	var stream bytes.Buffer
	recs := []rec{}
	stage := "writing the saves"
	defer func() {
		if e := recover(); e != nil {
			msg = fmt.Sprintf("n=%d %s as %s: %d saves written back to back into one stream (%s): panic while %s: %v", n, pname, place, len(recs), c04StreamDesc(recs, func(x rec) string { return x.desc }), stage, e)
		}
	}()
	k := 2 + r.Intn(3)
	for len(recs) < k {
		sh := shards[r.Intn(len(shards))]
		L := len(sh.full)
		it := search.WithPruning(n, sh.a, sh.m, pre, pr)
		pos := r.Intn(L + 2)
		for i := 0; i < pos; i++ {
			it.Next()
		}
		before := stream.Len()
		it.Save(&stream)
		recs = append(recs, rec{fmt.Sprintf("shard %d/%d after %d Next calls", sh.a, sh.m, pos), c04Tail(sh.full, pos), stream.Len() - before})
		if len(recs) < k && r.Intn(2) == 0 { // the same iterator advanced and saved again, appended
			adv := 1 + r.Intn(L/2+2)
			for i := 0; i < adv; i++ {
				it.Next()
			}
			before = stream.Len()
			it.Save(&stream)
			recs = append(recs, rec{fmt.Sprintf("the same iterator after %d more Next calls", adv), c04Tail(sh.full, pos+adv), stream.Len() - before})
		}
	}
	all := append([]byte(nil), stream.Bytes()...)
	desc := c04StreamDesc(recs, func(x rec) string { return x.desc })
	type src struct {
		name string
		r    io.Reader
		left func() int // bytes of the stream not yet consumed; -1 = unknown
	}
	bb := bytes.NewBuffer(append([]byte(nil), all...))
	br := bytes.NewReader(append([]byte(nil), all...))
	ob := &c04OneByte{data: append([]byte(nil), all...)}
	inner := bytes.NewReader(append([]byte(nil), all...))
	bu := bufio.NewReaderSize(inner, 64)
	srcs := []src{
		{"a bytes.Buffer", bb, func() int { return bb.Len() }},
		{"a bytes.Reader", br, func() int { return br.Len() }},
		{"an io.Reader returning one byte per Read", ob, func() int { return len(ob.data) - ob.pos }},
		{"a caller-side bufio.Reader", bu, func() int { return inner.Len() + bu.Buffered() }},
	}
	for _, sc := range srcs {
		remaining := len(all)
		for i, rc := range recs {
			stage = fmt.Sprintf("loading save #%d of %d (%s) from %s", i+1, len(recs), rc.desc, sc.name)
			it := search.Load(sc.r, pre, pr)
			remaining -= rc.size
			if left := sc.left(); left != remaining {
				return fmt.Sprintf("n=%d %s as %s: %d saves in one stream (%s) read from %s: Load #%d consumed %d bytes beyond its own save (%d bytes left, expected %d): the next saved state cannot be loaded", n, pname, place, len(recs), desc, sc.name, i+1, remaining-left, left, remaining)
			}
			stage = fmt.Sprintf("running the iterator loaded from save #%d (%s) of the stream", i+1, rc.desc)
			if got := c04Rest(it); !c04Eq(got, rc.want) {
				return fmt.Sprintf("n=%d %s as %s: %d saves in one stream (%s) read from %s: the iterator loaded from save #%d (%s) yields %s, expected %s", n, pname, place, len(recs), desc, sc.name, i+1, rc.desc, c04Brief(got), c04Brief(rc.want))
			}
		}
	}
	return ""
}

func c04StreamDesc[T any](recs []T, f func(T) string) string {
	d := make([]string, len(recs))
	for i, x := range recs {
		d[i] = f(x)
	}
	return strings.Join(d, "; ")
}

// c04RunCfg produces the reply part of one cfg (advance/save/load chain, then exhaust).
func c04RunCfg(n int, c c04Cfg, pname, place string) string {
	p, _ := c03PredByName(pname)
	pre, pr := c03Funcs(p, place)
	it := search.WithPruning(n, c.a, c.m, pre, pr)
	out := []uint64{}
	for _, k := range c.ks {
		for i := 0; i < k; i++ {
			if v, ok := c04Step(it); ok {
				out = append(out, v)
			}
		}
		it = search.Load(bytes.NewReader(c04Save(it)), pre, pr)
	}
	out = append(out, c04Rest(it)...)
	return fmt.Sprintf("%d/%d:%d:%s", c.a, c.m, len(out), c03ShowMasks(out))
}

func c04ParseCfg(s string) c04Cfg {
	f := strings.Split(s, ",")
	c := c04Cfg{a: atoi(f[0]), m: atoi(f[1])}
	if len(f) > 2 && f[2] != "" {
		for _, k := range strings.Split(f[2], ".") {
			c.ks = append(c.ks, atoi(k))
		}
	}
	return c
}

// ---- the oracle table ----

type c04Ans struct {
	perm   []int
	orbits []int
	gens   [][]int
}

// c04Canonical calls the library's canonical labelling exactly as getAutomorphismGroup does (sorted neighbour lists,
// a partition reset with no vertex classes), on fresh storage.
func c04Canonical(nv int, mask uint64, check bool, vb uint) c04Ans {
	a := c03Adj(nv, mask)
	nb := make([][]int, nv)
	ne := 0
	for v := 0; v < nv; v++ {
		nb[v] = []int{}
		for u := 0; u < nv; u++ {
			if a[v][u] {
				nb[v] = append(nb[v], u)
				ne++
			}
		}
	}
	ne /= 2
	op := graph.NewOrderedPartition(nv, ne, nil)
	st := graph.NewStorage(nv, ne)
	opt := &graph.CanonicalOptions{CheckViability: check, ViableBits: vb}
	perm, orbits, gens := graph.CanonicalIsomorphAllocated(nv, ne, nb, op, st, opt)
	ans := c04Ans{}
	if perm == nil {
		return ans
	}
	ans.perm = append([]int{}, perm...)
	ans.orbits = append([]int{}, orbits...)
	for _, g := range gens {
		ans.gens = append(ans.gens, append([]int{}, g...))
	}
	return ans
}

func c04Digits(a []int) string {
	var b strings.Builder
	for _, v := range a {
		b.WriteByte(byte('0' + v))
	}
	return b.String()
}

func c04Entry(nv int, mask uint64, check bool, vb uint) string {
	ans := c04Canonical(nv, mask, check, vb)
	vbs := "-"
	if check {
		vbs = strconv.FormatUint(uint64(vb), 10)
	}
	if ans.perm == nil {
		return fmt.Sprintf("%d:%d:%s:x::", nv, mask, vbs)
	}
	os := make([]string, len(ans.orbits))
	for i, v := range ans.orbits {
		os[i] = strconv.Itoa(v)
	}
	gs := make([]string, len(ans.gens))
	for i, g := range ans.gens {
		gs[i] = c04Digits(g)
	}
	return fmt.Sprintf("%d:%d:%s:%s:%s:%s", nv, mask, vbs, c04Digits(ans.perm), strings.Join(os, ","), strings.Join(gs, "."))
}

// c04Viable: the part of isCanonical that precedes the canonical-labelling call, re-implemented on the adjacency
// matrix of the candidate graph (new vertex = nv-1).  decided = the degree tests already give the answer.
// (This decides only WHICH questions the table must answer; the model computes the bits itself and a missing entry
// shows up as a divergence.)
func c04Viable(nv int, mask uint64) (decided bool, vb uint) {
	a := c03Adj(nv, mask)
	deg := make([]int, nv)
	for v := 0; v < nv; v++ {
		for u := 0; u < nv; u++ {
			if a[v][u] {
				deg[v]++
			}
		}
	}
	last := nv - 1
	for i := 0; i < last; i++ {
		if deg[i] < deg[last] {
			return true, 0
		} else if deg[i] == deg[last] {
			vb |= 1 << uint(i)
		}
	}
	if vb == 0 {
		return true, 0
	}
	sums := func(v int) (s, q int) {
		for j := 0; j < nv; j++ {
			if a[v][j] {
				s += deg[j]
				q += deg[j] * deg[j]
			}
		}
		return
	}
	sum, square := sums(last)
	for x := vb; x != 0; x &= x - 1 {
		v := bits.TrailingZeros(x)
		s, q := sums(v)
		if s > sum {
			return true, 0
		} else if s < sum {
			vb ^= 1 << uint(v)
		} else if q > square {
			return true, 0
		} else if q < square {
			vb ^= 1 << uint(v)
		}
	}
	if vb == 0 {
		return true, 0
	}
	return false, vb
}

var c04TableMemo = map[int]string{}

func c04Table(n int) string {
	if s, ok := c04TableMemo[n]; ok {
		return s
	}
	entries := []string{}
	for k := 1; k < n; k++ {
		parents := c03Collect(search.All(k, 0, 1), k, nil)
		for _, pm := range parents {
			entries = append(entries, c04Entry(k, pm, false, 0))
			a := c03Adj(k, pm)
			minDeg := k
			for v := 0; v < k; v++ {
				d := 0
				for u := 0; u < k; u++ {
					if a[v][u] {
						d++
					}
				}
				if d < minDeg {
					minDeg = d
				}
			}
			for s := uint64(0); s < 1<<uint(k); s++ {
				if bits.OnesCount64(s) > minDeg+1 {
					continue
				}
				child := pm | s<<c03PairIndex(0, k)
				if decided, vb := c04Viable(k+1, child); !decided {
					entries = append(entries, c04Entry(k+1, child, true, vb))
				}
			}
		}
	}
	s := strings.Join(entries, " ")
	c04TableMemo[n] = s
	return s
}

func c04AllCfgPairs(maxM int) [][2]int {
	out := [][2]int{}
	for m := 1; m <= maxM; m++ {
		for a := 0; a < m; a++ {
			out = append(out, [2]int{a, m})
		}
	}
	return out
}

func init() {
	register(&Proto{
		Name:    "c04seq",
		Props:   []string{"C04", "C03"},
		Timeout: 300 * time.Second,
		Run: func(args []string) Result {
			if len(args) < 4 || args[3] != "cfg" {
				return Result{Out: "bad-op"}
			}
			n := atoi(args[0])
			pname, place := args[1], args[2]
			if _, ok := c03PredByName(pname); !ok {
				return Result{Out: "bad-op"}
			}
			cfgs := []c04Cfg{}
			for _, t := range args[4:] {
				if t == "tab" {
					break
				}
				cfgs = append(cfgs, c04ParseCfg(t))
			}
			// deterministic randomness for sampled positions / chains, derived from the request itself
			h := int64(n)*7919 + int64(len(pname))*31 + int64(len(place))
			for _, c := range cfgs {
				h = h*1000003 + int64(c.a*131+c.m*17+len(c.ks))
			}
			r := rand.New(rand.NewSource(h))
			outs := []string{}
			oracle := ""
			tags := map[string]bool{}
			positions := 0
			shards := []c04Shard{}
			for _, c := range cfgs {
				o := guard(func() string { return c04RunCfg(n, c, pname, place) })
				outs = append(outs, o)
				if o == "panic" && oracle == "" {
					oracle = fmt.Sprintf("WithPruning(n=%d,a=%d,m=%d,%s as %s): panic in the save/load chain with advances %v", n, c.a, c.m, pname, place, c.ks)
				}
				msg, np, full := c04History(n, c.a, c.m, pname, place, r)
				positions += np
				if msg != "" && oracle == "" {
					oracle = msg
				}
				if msg == "" {
					shards = append(shards, c04Shard{c.a, c.m, full})
				}
				if len(c.ks) > 1 {
					tags["chain"] = true
				}
			}
			if oracle == "" && len(shards) > 0 {
				for rep := 0; rep < 3 && oracle == ""; rep++ {
					oracle = c04Stream(n, shards, pname, place, r)
				}
				tags["stream"] = true
			}
			tl := []string{"pred-" + pname, "place-" + place, fmt.Sprintf("n%d", n)}
			for t := range tags {
				tl = append(tl, t)
			}
			if n >= 3 && positions >= 10 {
				tl = append(tl, "nontrivial")
			}
			return Result{Out: strings.Join(outs, ";"), Oracle: oracle, Tags: tl}
		},
		Gen: func(r *rand.Rand, tier string, emit func(string)) {
			type pp struct{ pred, place string }
			preds := []pp{{"none", "-"}}
			for _, d := range []string{"ord0", "ord1", "ord3", "deg1", "deg2", "deg3", "tri"} {
				preds = append(preds, pp{d, "pre"}, pp{d, "prune"})
			}
			preds = append(preds, pp{"tri", "both"})
			line := func(n int, p pp, maxM int, pairs [][2]int) {
				pf, pr := c03Funcs(func() c03Pred { q, _ := c03PredByName(p.pred); return q }(), p.place)
				var b strings.Builder
				fmt.Fprintf(&b, "c04seq %d %s %s cfg", n, p.pred, p.place)
				if pairs == nil {
					pairs = c04AllCfgPairs(maxM)
				}
				for _, am := range pairs {
					L := len(c04Rest(search.WithPruning(n, am[0], am[1], pf, pr)))
					nk := r.Intn(4)
					ks := []string{}
					for i := 0; i < nk; i++ {
						switch r.Intn(5) {
						case 0:
							ks = append(ks, "0")
						case 1:
							ks = append(ks, strconv.Itoa(L+r.Intn(2)))
						default:
							ks = append(ks, strconv.Itoa(r.Intn(L/2+2)))
						}
					}
					fmt.Fprintf(&b, " %d,%d,%s", am[0], am[1], strings.Join(ks, "."))
				}
				b.WriteString(" tab ")
				b.WriteString(c04Table(n))
				emit(b.String())
			}
			maxN := 6
			for n := 0; n <= maxN; n++ {
				for _, p := range preds {
					line(n, p, 5, nil)
				}
			}
			if tier == "thorough" {
				for _, p := range preds {
					line(7, p, 5, nil)
				}
				line(8, pp{"none", "-"}, 1, [][2]int{{0, 1}, {1, 2}, {3, 5}})
				line(8, pp{"tri", "prune"}, 1, [][2]int{{0, 1}, {1, 3}})
				line(8, pp{"deg3", "pre"}, 1, [][2]int{{0, 1}, {2, 4}})
			} else {
				line(7, preds[0], 1, [][2]int{{0, 1}, {r.Intn(2), 2}, {r.Intn(4), 4}})
				for i := 0; i < 2; i++ {
					line(7, preds[1+r.Intn(len(preds)-1)], 1, [][2]int{{0, 1}, {r.Intn(3), 3}, {r.Intn(5), 5}})
				}
			}
		},
	})
}
