package main

import (
	"fmt"
	"math/rand"
	"sort"
	"strconv"
	"time"

	"github.com/Tom-Johnston/mamba/graph"
)

// Property C11: IsPlanar decides planarity (no K5 / K3,3 minor) for every graph and never aborts.
//
// Protocols (every line is self-contained; <form> = d (DenseGraph) | s (SparseGraph); <seed> seeds the
// metamorphic transformations applied by the oracle):
//
//   planar <form> <seed> n m u v ...                 small graph. Reply: planar | nonplanar  (IsPlanar's answer; the Lean
//                                                    side answers with the verified specification Minor.planarExec).
//   minorcert <K5|K33> <form> <seed> n m u v ... c0 .. c(n-1)
//                                                    graph + branch sets of a claimed K5 / K3,3 minor. Reply: ok | bad =
//                                                    verdict on the certificate (Go: c11CertOK; Lean: verified checker
//                                                    Minor.isMinorCert). IsPlanar itself is judged in the oracle: it must
//                                                    answer false whenever the certificate is valid.
//   pknown <planar|nonplanar|brute|meta> <form> <seed> n m u v ...
//                                                    graph whose answer is known by construction (planar: subgraph of a
//                                                    stacked triangulation / grid / wheel / outerplanar ..., glued at cut
//                                                    vertices; nonplanar: more than 3n-6 edges), or decided by the brute-force
//                                                    oracle (brute, n <= 10), or unknown (meta: metamorphic relations only).
//                                                    Reply: n=<n> m=<m> (both sides read the same graph).
//
// Oracle (model-independent, on the implementation's own answers):
//   * IsPlanar returns without panic and within the time limit ("never aborts");
//   * n <= 10: agreement with c11Brute (K5 / K3,3 minor test by exhaustive deletion / contraction);
//   * the expected answer where it is known by construction or certified;
//   * metamorphic relations from the statement: relabelling, subdividing edges, adding isolated / pendant vertices
//     do not change the answer; every subgraph of a graph reported planar is reported planar (and every supergraph
//     of a graph reported non-planar is reported non-planar).

// ---------------------------------------------------------------------------------------------------------------
// running the implementation

func c11Call(g EG, form string) (ans bool, abort string) {
	defer func() {
		if e := recover(); e != nil {
			abort = fmt.Sprintf("panic(%v)", e)
		}
	}()
	var gg graph.Graph
	switch form {
	case "s":
		gg = g.Sparse()
	case "v": // the lazy InducedSubgraph view on all vertices in a permuted order: an isomorphic graph
		gg = graph.InducedSubgraph(g.Sparse(), rand.New(rand.NewSource(int64(g.N)*7919+int64(len(g.E)))).Perm(g.N))
	default:
		gg = g.Dense()
	}
	return graph.IsPlanar(gg), ""
}

func c11Word(b bool) string {
	if b {
		return "planar"
	}
	return "nonplanar"
}

// ---------------------------------------------------------------------------------------------------------------
// brute-force oracle for small graphs: K5 / K3,3 minor by exhaustive vertex deletion and edge contraction

type c11Key struct {
	n    int
	rows [10]uint16
}

func c11Rows(g EG) []uint16 {
	rows := make([]uint16, g.N)
	for _, e := range g.E {
		rows[e[0]] |= 1 << uint(e[1])
		rows[e[1]] |= 1 << uint(e[0])
	}
	return rows
}

func c11Pop(x uint16) int {
	c := 0
	for ; x != 0; x &= x - 1 {
		c++
	}
	return c
}

// remove vertex v from rows (vertices above v shift down)
func c11Del(rows []uint16, v int) []uint16 {
	out := make([]uint16, 0, len(rows)-1)
	lo := uint16(1)<<uint(v) - 1
	for i, r := range rows {
		if i == v {
			continue
		}
		out = append(out, r&lo|(r>>uint(v+1))<<uint(v))
	}
	return out
}

// which = 0: K5, 1: K3,3
func c11MinorRec(rows []uint16, which int, memo map[c11Key]bool) bool {
	n := len(rows)
	k, need := 5, 10
	if which == 1 {
		k, need = 6, 9
	}
	if n < k {
		return false
	}
	m := 0
	for _, r := range rows {
		m += c11Pop(r)
	}
	m /= 2
	if m < need {
		return false
	}
	if n == k {
		if which == 0 {
			return m == 10
		}
		// K3,3 as a spanning subgraph: some split of the 6 vertices into 3 + 3 with all 9 cross edges
		for s := uint16(0); s < 64; s++ {
			if c11Pop(s) != 3 || s&1 == 0 {
				continue
			}
			ok := true
			for v := 0; v < 6 && ok; v++ {
				if s>>uint(v)&1 == 1 && rows[v]&^s&63 != ^s&63 {
					ok = false
				}
			}
			if ok {
				return true
			}
		}
		return false
	}
	var key c11Key
	key.n = n
	copy(key.rows[:], rows)
	if r, ok := memo[key]; ok {
		return r
	}
	res := false
	for v := 0; v < n && !res; v++ {
		res = c11MinorRec(c11Del(rows, v), which, memo)
	}
	for v := 0; v < n && !res; v++ {
		for u := 0; u < v && !res; u++ {
			if rows[u]>>uint(v)&1 == 1 {
				// contract uv: u inherits the neighbours of v
				c := make([]uint16, n)
				copy(c, rows)
				nb := (rows[u] | rows[v]) &^ (1<<uint(u) | 1<<uint(v))
				c[u] = nb
				for w := 0; w < n; w++ {
					if nb>>uint(w)&1 == 1 {
						c[w] |= 1 << uint(u)
					}
				}
				res = c11MinorRec(c11Del(c, v), which, memo)
			}
		}
	}
	memo[key] = res
	return res
}

// c11Brute: is the graph planar in the sense of the property (no K5 minor and no K3,3 minor)? n <= 10.
func c11Brute(g EG) bool {
	rows := c11Rows(g)
	return !c11MinorRec(rows, 0, map[c11Key]bool{}) && !c11MinorRec(rows, 1, map[c11Key]bool{})
}

// ---------------------------------------------------------------------------------------------------------------
// all graphs on n vertices up to isomorphism (own canonical form; counts checked against OEIS A000088)

func c11Canon(n int, rows []uint16) uint64 {
	col := make([]int, n)
	for v := 0; v < n; v++ {
		col[v] = c11Pop(rows[v])
	}
	for round := 0; round < 3; round++ {
		sig := make([]string, n)
		for v := 0; v < n; v++ {
			nb := []int{}
			for u := 0; u < n; u++ {
				if rows[v]>>uint(u)&1 == 1 {
					nb = append(nb, col[u])
				}
			}
			sort.Ints(nb)
			sig[v] = fmt.Sprint(col[v], nb)
		}
		all := append([]string{}, sig...)
		sort.Strings(all)
		rank := map[string]int{}
		for _, s := range all {
			if _, ok := rank[s]; !ok {
				rank[s] = len(rank)
			}
		}
		for v := 0; v < n; v++ {
			col[v] = rank[sig[v]]
		}
	}
	order := make([]int, n) // vertices sorted by colour; cell boundaries where the colour changes
	for i := range order {
		order[i] = i
	}
	sort.SliceStable(order, func(i, j int) bool { return col[order[i]] < col[order[j]] })
	best := ^uint64(0)
	perm := make([]int, 0, n)
	used := make([]bool, n)
	var rec func(pos int, code uint64)
	rec = func(pos int, code uint64) {
		if pos == n {
			if code < best {
				best = code
			}
			return
		}
		c := col[order[pos]]
		for _, v := range order {
			if used[v] || col[v] != c {
				continue
			}
			nc := code
			for i := 0; i < pos; i++ {
				nc <<= 1
				if rows[v]>>uint(perm[i])&1 == 1 {
					nc |= 1
				}
			}
			// prune: compare with the same-length prefix of best
			rem := uint(0)
			for p := pos + 1; p < n; p++ {
				rem += uint(p)
			}
			if best != ^uint64(0) && nc > best>>rem {
				continue
			}
			used[v] = true
			perm = append(perm, v)
			rec(pos+1, nc)
			perm = perm[:len(perm)-1]
			used[v] = false
		}
	}
	rec(0, 0)
	return best
}

var c11ClassCache = map[int][]EG{}
var c11NumGraphs = []int{1, 1, 2, 4, 11, 34, 156, 1044, 12346}
var c11NumPlanar = []int{1, 1, 2, 4, 11, 33, 142, 822, 6966} // OEIS A005470

// c11Classes returns one representative of every isomorphism class of graphs on n vertices (n <= 8).
// The counts of graphs and of planar graphs (by c11Brute) are compared with the published numbers: a mismatch means
// the harness itself is broken.
func c11Classes(n int) []EG {
	if c, ok := c11ClassCache[n]; ok {
		return c
	}
	var out []EG
	if n == 0 {
		out = []EG{{N: 0}}
	} else {
		seen := map[uint64]bool{}
		for _, g := range c11Classes(n - 1) {
			for s := 0; s < 1<<uint(n-1); s++ {
				h := EG{N: n, E: append([][2]int{}, g.E...)}
				for u := 0; u < n-1; u++ {
					if s>>uint(u)&1 == 1 {
						h.E = append(h.E, [2]int{u, n - 1})
					}
				}
				key := c11Canon(n, c11Rows(h))
				if !seen[key] {
					seen[key] = true
					out = append(out, h)
				}
			}
		}
	}
	if len(out) != c11NumGraphs[n] {
		panic(fmt.Sprintf("c11: harness self-test failed: %d classes of graphs on %d vertices, expected %d", len(out), n, c11NumGraphs[n]))
	}
	pl := 0
	for _, g := range out {
		if c11Brute(g) {
			pl++
		}
	}
	if pl != c11NumPlanar[n] {
		panic(fmt.Sprintf("c11: harness self-test failed: brute force finds %d planar graphs on %d vertices, expected %d", pl, n, c11NumPlanar[n]))
	}
	c11ClassCache[n] = out
	return out
}

// ---------------------------------------------------------------------------------------------------------------
// certificate check (independent of the Lean checker): c[v] < k: v in branch set c[v]; otherwise unused

func c11HEdges(kind string) (k int, edges [][2]int) {
	if kind == "K5" {
		for a := 0; a < 5; a++ {
			for b := a + 1; b < 5; b++ {
				edges = append(edges, [2]int{a, b})
			}
		}
		return 5, edges
	}
	for a := 0; a < 3; a++ {
		for b := 3; b < 6; b++ {
			edges = append(edges, [2]int{a, b})
		}
	}
	return 6, edges
}

func c11CertOK(g EG, kind string, cert []int) bool {
	k, hedges := c11HEdges(kind)
	nb := make([][]int, g.N)
	for _, e := range g.E {
		nb[e[0]] = append(nb[e[0]], e[1])
		nb[e[1]] = append(nb[e[1]], e[0])
	}
	cls := func(v int) int {
		if v < len(cert) && cert[v] >= 0 && cert[v] < k {
			return cert[v]
		}
		return k
	}
	size := make([]int, k+1)
	first := make([]int, k+1)
	for v := g.N - 1; v >= 0; v-- {
		size[cls(v)]++
		first[cls(v)] = v
	}
	for h := 0; h < k; h++ {
		if size[h] == 0 {
			return false
		}
		seen := map[int]bool{first[h]: true}
		stack := []int{first[h]}
		for len(stack) > 0 {
			v := stack[len(stack)-1]
			stack = stack[:len(stack)-1]
			for _, u := range nb[v] {
				if cls(u) == h && !seen[u] {
					seen[u] = true
					stack = append(stack, u)
				}
			}
		}
		if len(seen) != size[h] {
			return false
		}
	}
	for _, he := range hedges {
		found := false
		for _, e := range g.E {
			a, b := cls(e[0]), cls(e[1])
			if (a == he[0] && b == he[1]) || (a == he[1] && b == he[0]) {
				found = true
				break
			}
		}
		if !found {
			return false
		}
	}
	return true
}

// ---------------------------------------------------------------------------------------------------------------
// graph builder for the constructed families

type c11B struct {
	n  int
	es map[[2]int]bool
}

func c11NewB() *c11B { return &c11B{es: map[[2]int]bool{}} }
func (b *c11B) v() int {
	b.n++
	return b.n - 1
}
func (b *c11B) root(root int) int {
	if root >= 0 {
		return root
	}
	return b.v()
}
func c11Pair(u, v int) [2]int {
	if u > v {
		u, v = v, u
	}
	return [2]int{u, v}
}
func (b *c11B) e(u, v int) {
	if u != v {
		b.es[c11Pair(u, v)] = true
	}
}
func (b *c11B) has(u, v int) bool { return b.es[c11Pair(u, v)] }
func (b *c11B) EG() EG {
	g := EG{N: b.n}
	for e := range b.es {
		g.E = append(g.E, e)
	}
	sort.Slice(g.E, func(i, j int) bool {
		if g.E[i][1] != g.E[j][1] {
			return g.E[i][1] < g.E[j][1]
		}
		return g.E[i][0] < g.E[j][0]
	})
	return g
}

// remove every edge among vs with probability p (a subgraph of a planar graph is planar)
func (b *c11B) thin(r *rand.Rand, p float64) {
	keys := make([][2]int, 0, len(b.es))
	for e := range b.es {
		keys = append(keys, e)
	}
	sort.Slice(keys, func(i, j int) bool {
		if keys[i][1] != keys[j][1] {
			return keys[i][1] < keys[j][1]
		}
		return keys[i][0] < keys[j][0]
	})
	for _, e := range keys {
		if r.Float64() < p {
			delete(b.es, e)
		}
	}
}

// planar pieces; each returns its vertices, the first of which is root when root >= 0

// random stacked triangulation (Apollonian network) on k >= 3 vertices
func (b *c11B) stacked(r *rand.Rand, k, root int) []int {
	if k < 3 {
		k = 3
	}
	vs := []int{b.root(root), b.v(), b.v()}
	b.e(vs[0], vs[1])
	b.e(vs[1], vs[2])
	b.e(vs[0], vs[2])
	faces := [][3]int{{vs[0], vs[1], vs[2]}, {vs[0], vs[1], vs[2]}}
	for len(vs) < k {
		i := r.Intn(len(faces))
		f := faces[i]
		w := b.v()
		vs = append(vs, w)
		b.e(w, f[0])
		b.e(w, f[1])
		b.e(w, f[2])
		faces[i] = [3]int{f[0], f[1], w}
		faces = append(faces, [3]int{f[1], f[2], w}, [3]int{f[0], f[2], w})
	}
	return vs
}

func (b *c11B) grid(a, c, root int) []int {
	vs := make([]int, a*c)
	for i := range vs {
		if i == 0 {
			vs[i] = b.root(root)
		} else {
			vs[i] = b.v()
		}
	}
	for i := 0; i < a; i++ {
		for j := 0; j < c; j++ {
			if i+1 < a {
				b.e(vs[i*c+j], vs[(i+1)*c+j])
			}
			if j+1 < c {
				b.e(vs[i*c+j], vs[i*c+j+1])
			}
		}
	}
	return vs
}

// triangulated grid with random diagonals
func (b *c11B) trigrid(r *rand.Rand, a, c, root int) []int {
	vs := b.grid(a, c, root)
	for i := 0; i+1 < a; i++ {
		for j := 0; j+1 < c; j++ {
			if r.Intn(2) == 0 {
				b.e(vs[i*c+j], vs[(i+1)*c+j+1])
			} else {
				b.e(vs[(i+1)*c+j], vs[i*c+j+1])
			}
		}
	}
	return vs
}

func (b *c11B) cycle(k, root int) []int {
	if k < 3 {
		k = 3
	}
	vs := []int{b.root(root)}
	for len(vs) < k {
		vs = append(vs, b.v())
	}
	for i := range vs {
		b.e(vs[i], vs[(i+1)%k])
	}
	return vs
}

func (b *c11B) wheel(k, root int) []int {
	hub := b.root(root)
	rim := b.cycle(k, -1)
	for _, v := range rim {
		b.e(hub, v)
	}
	return append([]int{hub}, rim...)
}

// maximal outerplanar: polygon with a random triangulation by non-crossing chords; optionally an apex joined to all
// (apex + outerplanar = planar)
func (b *c11B) outer(r *rand.Rand, k, root int, apex bool) []int {
	vs := b.cycle(k, root)
	var tri func(i, j int)
	tri = func(i, j int) {
		if j-i < 2 {
			return
		}
		m := i + 1 + r.Intn(j-i-1)
		b.e(vs[i], vs[m])
		b.e(vs[m], vs[j])
		tri(i, m)
		tri(m, j)
	}
	tri(0, len(vs)-1)
	if apex {
		a := b.v()
		for _, v := range vs {
			b.e(a, v)
		}
		vs = append(vs, a)
	}
	return vs
}

func (b *c11B) tree(r *rand.Rand, k, root int) []int {
	vs := []int{b.root(root)}
	for len(vs) < k {
		w := b.v()
		b.e(w, vs[r.Intn(len(vs))])
		vs = append(vs, w)
	}
	return vs
}

// fixed small planar graphs: K4, K5 minus an edge, K3,3 minus an edge, octahedron, cube, K2,k
func (b *c11B) small(r *rand.Rand, root int) []int {
	mk := func(k int) []int {
		vs := []int{b.root(root)}
		for len(vs) < k {
			vs = append(vs, b.v())
		}
		return vs
	}
	switch r.Intn(6) {
	case 0:
		vs := mk(4)
		for i := 0; i < 4; i++ {
			for j := 0; j < i; j++ {
				b.e(vs[i], vs[j])
			}
		}
		return vs
	case 1:
		vs := mk(5)
		for i := 0; i < 5; i++ {
			for j := 0; j < i; j++ {
				if !(i == 4 && j == 3) {
					b.e(vs[i], vs[j])
				}
			}
		}
		return vs
	case 2:
		vs := mk(6)
		for i := 0; i < 3; i++ {
			for j := 3; j < 6; j++ {
				if !(i == 2 && j == 5) {
					b.e(vs[i], vs[j])
				}
			}
		}
		return vs
	case 3: // octahedron: K6 minus a perfect matching
		vs := mk(6)
		for i := 0; i < 6; i++ {
			for j := 0; j < i; j++ {
				if i^1 != j {
					b.e(vs[i], vs[j])
				}
			}
		}
		return vs
	case 4: // cube
		vs := mk(8)
		for i := 0; i < 8; i++ {
			for d := 0; d < 3; d++ {
				b.e(vs[i], vs[i^(1<<uint(d))])
			}
		}
		return vs
	default: // K2,k
		k := 3 + r.Intn(6)
		vs := mk(2 + k)
		for j := 2; j < 2+k; j++ {
			b.e(vs[0], vs[j])
			b.e(vs[1], vs[j])
		}
		return vs
	}
}

// one random planar piece with about k vertices
func (b *c11B) piece(r *rand.Rand, k, root int) (vs []int, name string) {
	switch r.Intn(9) {
	case 0, 1, 2:
		return b.stacked(r, k, root), "stacked"
	case 3:
		a := 2 + r.Intn(4)
		c := k / a
		if c < 2 {
			c = 2
		}
		if r.Intn(2) == 0 {
			return b.grid(a, c, root), "grid"
		}
		return b.trigrid(r, a, c, root), "trigrid"
	case 4:
		if k < 4 {
			k = 4
		}
		return b.wheel(k-1, root), "wheel"
	case 5:
		return b.outer(r, k, root, r.Intn(2) == 0), "outerplanar"
	case 6:
		return b.tree(r, k, root), "tree"
	case 7:
		return b.cycle(k, root), "cycle"
	default:
		return b.small(r, root), "small"
	}
}

// c11Planar builds a planar graph with about size vertices out of `pieces` planar pieces: each new piece is a new
// component, is glued at a cut vertex, or is joined by a bridge. Returns the builder and the vertex sets of the pieces.
func c11Planar(r *rand.Rand, size, pieces int) (*c11B, [][]int, []string) {
	b := c11NewB()
	var parts [][]int
	var names []string
	for i := 0; i < pieces; i++ {
		k := size / pieces
		if k < 3 {
			k = 3
		}
		k = 3 + r.Intn(2*k-2)
		root := -1
		mode := r.Intn(4)
		if b.n > 0 && mode >= 2 {
			root = r.Intn(b.n) // glue at a cut vertex
		}
		old := b.n
		vs, name := b.piece(r, k, root)
		if old > 0 && mode == 1 {
			b.e(r.Intn(old), vs[r.Intn(len(vs))]) // bridge
		}
		parts = append(parts, vs)
		names = append(names, name)
	}
	return b, parts, names
}

// plant a subdivision of K5 / K3,3 whose branch vertices lie in host; the subdivision paths run through unused
// host vertices (found by BFS in the current graph) or through new vertices. Returns the class of every vertex.
func (b *c11B) plant(r *rand.Rand, kind string, host []int, through float64) map[int]int {
	k, hedges := c11HEdges(kind)
	cls := map[int]int{}
	used := map[int]bool{}
	branch := make([]int, k)
	perm := r.Perm(len(host))
	for i := 0; i < k; i++ {
		if i < len(host) {
			branch[i] = host[perm[i]]
		} else {
			branch[i] = b.v()
		}
		cls[branch[i]] = i
		used[branch[i]] = true
	}
	inHost := map[int]bool{}
	for _, v := range host {
		inHost[v] = true
	}
	r.Shuffle(len(hedges), func(i, j int) { hedges[i], hedges[j] = hedges[j], hedges[i] })
	for _, he := range hedges {
		s, t := branch[he[0]], branch[he[1]]
		if b.has(s, t) {
			continue
		}
		if r.Float64() < through {
			// BFS from s to t through unused host vertices
			nb := map[int][]int{}
			for e := range b.es {
				nb[e[0]] = append(nb[e[0]], e[1])
				nb[e[1]] = append(nb[e[1]], e[0])
			}
			for _, l := range nb {
				sort.Ints(l)
			}
			par := map[int]int{s: s}
			queue := []int{s}
			found := false
			for len(queue) > 0 && !found {
				v := queue[0]
				queue = queue[1:]
				for _, u := range nb[v] {
					if u == t {
						par[t] = v
						found = true
						break
					}
					if _, ok := par[u]; ok || used[u] || !inHost[u] {
						continue
					}
					par[u] = v
					queue = append(queue, u)
				}
			}
			if found {
				for v := par[t]; v != s; v = par[v] {
					used[v] = true
					cls[v] = he[0]
				}
				continue
			}
		}
		prev := s
		for l := r.Intn(4); l > 0; l-- {
			w := b.v()
			b.e(prev, w)
			cls[w] = he[0]
			used[w] = true
			prev = w
		}
		b.e(prev, t)
	}
	return cls
}

// blow-up: every vertex of K5 / K3,3 becomes a random tree, every edge one edge between the trees (a minor that is
// in general not a subdivision)
func (b *c11B) blowup(r *rand.Rand, kind string, maxTree int) map[int]int {
	k, hedges := c11HEdges(kind)
	cls := map[int]int{}
	trees := make([][]int, k)
	for i := 0; i < k; i++ {
		trees[i] = b.tree(r, 1+r.Intn(maxTree), -1)
		for _, v := range trees[i] {
			cls[v] = i
		}
	}
	for _, he := range hedges {
		b.e(trees[he[0]][r.Intn(len(trees[he[0]]))], trees[he[1]][r.Intn(len(trees[he[1]]))])
	}
	return cls
}

// ---------------------------------------------------------------------------------------------------------------
// transformations for the metamorphic relations

func c11Subdivide(g EG, idx []int) EG {
	h := EG{N: g.N}
	drop := map[int]bool{}
	for _, i := range idx {
		drop[i] = true
	}
	for i, e := range g.E {
		if drop[i] {
			w := h.N
			h.N++
			h.E = append(h.E, [2]int{e[0], w}, [2]int{e[1], w})
		} else {
			h.E = append(h.E, e)
		}
	}
	return h.norm()
}

func c11DropEdges(g EG, r *rand.Rand, p float64) EG {
	h := EG{N: g.N}
	for _, e := range g.E {
		if r.Float64() >= p {
			h.E = append(h.E, e)
		}
	}
	return h
}

func c11DropVertices(g EG, r *rand.Rand, p float64) EG {
	keep := []int{}
	for v := 0; v < g.N; v++ {
		if r.Float64() >= p {
			keep = append(keep, v)
		}
	}
	idx := make([]int, g.N)
	for i := range idx {
		idx[i] = -1
	}
	for i, v := range keep {
		idx[v] = i
	}
	h := EG{N: len(keep)}
	for _, e := range g.E {
		if idx[e[0]] >= 0 && idx[e[1]] >= 0 {
			h.E = append(h.E, [2]int{idx[e[0]], idx[e[1]]})
		}
	}
	return h.norm()
}

// relabel without building an adjacency matrix: vertex v of g becomes q[v]
func c11Relabel(g EG, q []int) EG {
	h := EG{N: g.N}
	for _, e := range g.E {
		h.E = append(h.E, c11Pair(q[e[0]], q[e[1]]))
	}
	return c11Norm(h)
}

func c11Norm(g EG) EG {
	sort.Slice(g.E, func(i, j int) bool {
		if g.E[i][1] != g.E[j][1] {
			return g.E[i][1] < g.E[j][1]
		}
		return g.E[i][0] < g.E[j][0]
	})
	return g
}

func c11Show(g EG) string {
	if g.N <= 120 {
		return "[" + g.Tokens() + "]"
	}
	return fmt.Sprintf("[graph with n=%d m=%d]", g.N, len(g.E))
}

// c11Judge runs IsPlanar on g and evaluates the oracle. expect: 1 planar, 0 non-planar, -1 unknown.
func c11Judge(g EG, form string, expect int, why string, seed int64, tags map[string]bool) (ans string, oracle string) {
	base, abort := c11Call(g, form)
	if abort != "" {
		return "panic", "IsPlanar aborted with " + abort + " on " + c11Show(g)
	}
	ans = c11Word(base)
	fail := func(f string, a ...interface{}) {
		if oracle == "" {
			oracle = fmt.Sprintf(f, a...)
		}
	}
	if expect < 0 && g.N <= 10 {
		expect, why = 0, "brute force finds a K5 or K3,3 minor"
		if c11Brute(g) {
			expect, why = 1, "brute force finds no K5 and no K3,3 minor"
		}
		tags["brute"] = true
	}
	if expect >= 0 && base != (expect == 1) {
		fail("IsPlanar=%v but the graph is %s (%s): %s", base, c11Word(expect == 1), why, c11Show(g))
	}
	r := rand.New(rand.NewSource(seed))
	try := func(what string, h EG, f string, want bool, onlyIf bool) {
		if !onlyIf || oracle != "" {
			return
		}
		got, abort := c11Call(h, f)
		if abort != "" {
			fail("IsPlanar aborted with %s on %s (%s of %s)", abort, c11Show(h), what, c11Show(g))
			return
		}
		if got != want {
			fail("IsPlanar=%v on %s but IsPlanar=%v on %s, which is %s", base, c11Show(g), got, c11Show(h), what)
		}
	}
	other := "s"
	if form == "s" {
		other = "d"
	}
	// relabelling
	q := r.Perm(g.N)
	try("a relabelling", c11Relabel(g, q), form, base, true)
	try("the same graph in the other representation", g, other, base, g.N <= 80)
	try("the same graph seen through an InducedSubgraph view with the vertices permuted", g, "v", base, g.N <= 80)
	// subdividing edges
	if len(g.E) > 0 {
		k := 1 + r.Intn(3)
		idx := []int{}
		for i := 0; i < k; i++ {
			idx = append(idx, r.Intn(len(g.E)))
		}
		try("a subdivision", c11Subdivide(g, idx), form, base, true)
		all := make([]int, len(g.E))
		for i := range all {
			all[i] = i
		}
		try("the subdivision of every edge", c11Subdivide(g, all), form, base, g.N+len(g.E) <= 400)
	}
	// isolated and pendant vertices
	{
		h := EG{N: g.N + 1, E: g.E}
		try("with an isolated vertex added", h, form, base, true)
		if g.N > 0 {
			h2 := EG{N: g.N + 1, E: append(append([][2]int{}, g.E...), [2]int{r.Intn(g.N), g.N})}
			try("with a pendant vertex added", c11Relabel(h2, r.Perm(h2.N)), form, base, true)
		}
	}
	// subgraphs of graphs reported planar; supergraphs of graphs reported non-planar
	if base {
		try("a subgraph (edges deleted)", c11DropEdges(g, r, 0.05+0.3*r.Float64()), form, true, true)
		try("a subgraph (vertices deleted)", c11DropVertices(g, r, 0.05+0.3*r.Float64()), form, true, true)
		if len(g.E) > 0 {
			i := r.Intn(len(g.E))
			h := EG{N: g.N, E: append(append([][2]int{}, g.E[:i]...), g.E[i+1:]...)}
			try("a subgraph (one edge deleted)", h, form, true, true)
		}
	} else if g.N >= 2 {
		h := EG{N: g.N, E: append([][2]int{}, g.E...)}
		have := map[[2]int]bool{}
		for _, e := range g.E {
			have[e] = true
		}
		for i := 0; i < 3; i++ {
			e := c11Pair(r.Intn(g.N), r.Intn(g.N))
			if e[0] != e[1] && !have[e] {
				have[e] = true
				h.E = append(h.E, e)
			}
		}
		try("a supergraph (edges added)", c11Norm(h), form, false, true)
	}
	tags[ans] = true
	return ans, oracle
}

func c11Tags(g EG, tags map[string]bool) []string {
	switch {
	case g.N <= 4:
		tags["n<=4"] = true
	case g.N <= 8:
		tags["n=5..8"] = true
	case g.N <= 20:
		tags["n=9..20"] = true
	case g.N <= 60:
		tags["n=21..60"] = true
	default:
		tags["n>60"] = true
	}
	if g.N >= 5 && len(g.E) >= g.N {
		tags["nontrivial"] = true
	}
	out := []string{}
	for t := range tags {
		out = append(out, t)
	}
	sort.Strings(out)
	return out
}

func c11Form(r *rand.Rand) string {
	if r.Intn(3) == 0 {
		return "s"
	}
	return "d"
}

func init() {
	register(&Proto{
		Name:    "planar",
		Props:   []string{"C11"},
		Timeout: 60 * time.Second,
		Run: func(args []string) Result {
			form := args[0]
			seed, _ := strconv.ParseInt(args[1], 10, 64)
			g, _ := parseEG(args[2:])
			tags := map[string]bool{}
			ans, oracle := c11Judge(g, form, -1, "", seed, tags)
			return Result{Out: ans, Oracle: oracle, Tags: c11Tags(g, tags)}
		},
		Gen: c11GenSmall,
	})
	register(&Proto{
		Name:    "minorcert",
		Props:   []string{"C11"},
		Timeout: 60 * time.Second,
		Run: func(args []string) Result {
			kind, form := args[0], args[1]
			seed, _ := strconv.ParseInt(args[2], 10, 64)
			g, rest := parseEG(args[3:])
			cert := atois(rest)
			tags := map[string]bool{"cert-" + kind: true}
			ok := c11CertOK(g, kind, cert)
			expect, why := -1, ""
			out := "bad"
			if ok {
				out = "ok"
				expect, why = 0, "the request carries valid branch sets of a "+kind+" minor"
			}
			tags["cert-"+out] = true
			ans, oracle := c11Judge(g, form, expect, why, seed, tags)
			_ = ans
			return Result{Out: out, Oracle: oracle, Tags: c11Tags(g, tags)}
		},
		Gen: c11GenCert,
	})
	register(&Proto{
		Name:    "pknown",
		Props:   []string{"C11"},
		Timeout: 120 * time.Second,
		Run: func(args []string) Result {
			what, form := args[0], args[1]
			seed, _ := strconv.ParseInt(args[2], 10, 64)
			g, _ := parseEG(args[3:])
			tags := map[string]bool{"known-" + what: true}
			expect, why := -1, ""
			switch what {
			case "planar":
				expect, why = 1, "planar by construction"
			case "nonplanar":
				expect, why = 0, "non-planar by construction"
			}
			_, oracle := c11Judge(g, form, expect, why, seed, tags)
			return Result{Out: fmt.Sprintf("n=%d m=%d", g.N, len(g.E)), Oracle: oracle, Tags: c11Tags(g, tags)}
		},
		Gen: c11GenKnown,
	})
}

// ---------------------------------------------------------------------------------------------------------------
// generators

// small graphs: everything up to 4 vertices and all 1024 labelled graphs on 5 vertices; every isomorphism class on
// 6 and 7 vertices (8 in the thorough tier) in several labellings / representations; samples on 8..9 vertices
func c11GenSmall(r *rand.Rand, tier string, emit func(string)) {
	thorough := tier == "thorough"
	for n := 0; n <= 5; n++ {
		for mask := uint64(0); mask < 1<<uint(n*(n-1)/2); mask++ {
			emit("planar " + c11Form(r) + " " + strconv.FormatInt(r.Int63(), 10) + " " + fromMask(n, mask).Tokens())
		}
	}
	forms := func(g EG, k int) {
		emit("planar d " + strconv.FormatInt(r.Int63(), 10) + " " + g.Tokens())
		for i := 1; i < k; i++ {
			emit("planar " + c11Form(r) + " " + strconv.FormatInt(r.Int63(), 10) + " " + g.Relabel(r.Perm(g.N)).Tokens())
		}
	}
	for _, g := range c11Classes(6) {
		forms(g, 3)
	}
	k7 := 2
	if thorough {
		k7 = 5
	}
	for _, g := range c11Classes(7) {
		forms(g, k7)
	}
	// near the planar / non-planar border on 8 and 9 vertices: stacked triangulation +- a few edges
	border := func(n int) EG {
		b := c11NewB()
		b.stacked(r, n, -1)
		g := b.EG()
		switch r.Intn(3) {
		case 0:
			g = c11DropEdges(g, r, 0.15)
		case 1:
			for i := 0; i < 1+r.Intn(2); i++ {
				b.e(r.Intn(n), r.Intn(n))
			}
			g = c11DropEdges(b.EG(), r, 0.2)
		}
		return g.Relabel(r.Perm(n))
	}
	n8, n9 := 120, 6
	if thorough {
		n8, n9 = 600, 40
	}
	for i := 0; i < n8; i++ {
		if i%2 == 0 {
			emit("planar " + c11Form(r) + " " + strconv.FormatInt(r.Int63(), 10) + " " + border(8).Tokens())
		} else {
			emit("planar " + c11Form(r) + " " + strconv.FormatInt(r.Int63(), 10) + " " + randomEG(r, 8, 0.25+0.35*r.Float64()).Tokens())
		}
	}
	for i := 0; i < n9; i++ {
		emit("planar " + c11Form(r) + " " + strconv.FormatInt(r.Int63(), 10) + " " + border(9).Tokens())
	}
	if thorough {
		cl := c11Classes(8)
		for _, i := range r.Perm(len(cl))[:2500] {
			emit("planar " + c11Form(r) + " " + strconv.FormatInt(r.Int63(), 10) + " " + cl[i].Relabel(r.Perm(8)).Tokens())
		}
	}
}

func c11CertLine(kind, form string, seed int64, g EG, cert []int) string {
	return "minorcert " + kind + " " + form + " " + strconv.FormatInt(seed, 10) + " " + g.Tokens() + " " + joinInts(cert)
}

// graphs with a planted K5 / K3,3 minor and its branch sets
func c11GenCert(r *rand.Rand, tier string, emit func(string)) {
	cases, maxN := 350, 60
	if tier == "thorough" {
		cases, maxN = 2500, 300
	}
	kinds := []string{"K5", "K33"}
	finish := func(kind string, b *c11B, cls map[int]int) {
		k, _ := c11HEdges(kind)
		g := b.EG()
		cert := make([]int, g.N)
		for v := range cert {
			cert[v] = k
			if c, ok := cls[v]; ok {
				cert[v] = c
			}
		}
		// random relabelling: vertex v becomes q[v]
		q := r.Perm(g.N)
		h := c11Relabel(g, q)
		hc := make([]int, g.N)
		for v := range cert {
			hc[q[v]] = cert[v]
		}
		if r.Intn(10) == 0 && g.N > 0 { // corrupted certificate (usually invalid): both checkers must agree on it
			for i := 0; i < 1+r.Intn(3); i++ {
				hc[r.Intn(g.N)] = r.Intn(k + 1)
			}
		}
		emit(c11CertLine(kind, c11Form(r), r.Int63(), h, hc))
	}
	// boundary cases: K5, K3,3 themselves, with and without a valid certificate
	{
		b := c11NewB()
		cls := b.blowup(r, "K5", 1)
		finish("K5", b, cls)
		b = c11NewB()
		cls = b.blowup(r, "K33", 1)
		finish("K33", b, cls)
		emit("minorcert K5 d 1 5 9 0 1 0 2 1 2 0 3 1 3 2 3 0 4 1 4 2 4 0 1 2 3 4")
		emit("minorcert K33 d 1 6 9 0 3 0 4 0 5 1 3 1 4 1 5 2 3 2 4 2 5 0 1 3 2 4 5")
		emit("minorcert K5 d 1 0 0")
		emit("minorcert K5 s 1 7 10 0 1 0 2 1 2 0 3 1 3 2 3 0 4 1 4 2 4 3 4 0 1 2 3 4 5 5")
		// Petersen graph: outer cycle 0..4, inner pentagram 5..9, spokes i - i+5; contracting the spokes gives K5
		emit("minorcert K5 d 1 10 15 0 1 1 2 2 3 3 4 0 4 5 7 7 9 6 9 6 8 5 8 0 5 1 6 2 7 3 8 4 9 0 1 2 3 4 0 1 2 3 4")
	}
	for c := 0; c < cases; c++ {
		kind := kinds[r.Intn(2)]
		size := 6 + r.Intn(maxN-5)
		if r.Intn(3) == 0 {
			size = 6 + r.Intn(14)
		}
		switch r.Intn(8) {
		case 0: // blow-up alone or next to / glued to planar pieces
			b := c11NewB()
			if r.Intn(2) == 0 {
				b, _, _ = c11Planar(r, size, 1+r.Intn(4))
				b.thin(r, 0.3*r.Float64())
			}
			old := b.n
			cls := b.blowup(r, kind, 1+r.Intn(5))
			if old > 0 && r.Intn(2) == 0 {
				b.e(r.Intn(old), old+r.Intn(b.n-old))
			}
			finish(kind, b, cls)
		case 1: // complete and complete bipartite graphs
			b := c11NewB()
			cls := map[int]int{}
			if kind == "K5" {
				n := 5 + r.Intn(6)
				for i := 0; i < n; i++ {
					b.v()
					for j := 0; j < i; j++ {
						b.e(i, j)
					}
				}
				for i := 0; i < 5; i++ {
					cls[i] = i
				}
			} else {
				p, q := 3+r.Intn(4), 3+r.Intn(4)
				for i := 0; i < p+q; i++ {
					b.v()
				}
				for i := 0; i < p; i++ {
					for j := p; j < p+q; j++ {
						b.e(i, j)
					}
				}
				cls = map[int]int{0: 0, 1: 1, 2: 2, p: 3, p + 1: 4, p + 2: 5}
			}
			finish(kind, b, cls)
		default: // a subdivision planted inside one piece of a planar graph with several blocks / components
			b, parts, _ := c11Planar(r, size, 1+r.Intn(5))
			b.thin(r, 0.4*r.Float64()*float64(r.Intn(2)))
			host := parts[r.Intn(len(parts))]
			cls := b.plant(r, kind, host, []float64{0, 0.5, 1}[r.Intn(3)])
			finish(kind, b, cls)
		}
	}
}

// graphs whose answer is known by construction, decided by brute force, or unknown (metamorphic relations only)
func c11GenKnown(r *rand.Rand, tier string, emit func(string)) {
	thorough := tier == "thorough"
	cases, maxN := 500, 60
	if thorough {
		cases, maxN = 4000, 300
	}
	line := func(what string, g EG) {
		emit("pknown " + what + " " + c11Form(r) + " " + strconv.FormatInt(r.Int63(), 10) + " " + g.Tokens())
	}
	// boundary: empty graph, triangulations with exactly 3n-6 edges, long cycles and paths
	line("planar", EG{N: 0})
	line("planar", EG{N: 1})
	for _, n := range []int{5, 6, 7, 12, 30} {
		b := c11NewB()
		b.stacked(r, n, -1)
		line("planar", b.EG())
		b = c11NewB()
		b.wheel(n, -1)
		line("planar", b.EG())
		b = c11NewB()
		b.cycle(n, -1)
		line("planar", b.EG())
	}
	// planar by construction
	for c := 0; c < cases; c++ {
		size := 5 + r.Intn(maxN-4)
		if r.Intn(3) == 0 {
			size = 5 + r.Intn(16)
		}
		pieces := 1
		if r.Intn(2) == 0 {
			pieces = 1 + r.Intn(8)
		}
		b, _, _ := c11Planar(r, size, pieces)
		if r.Intn(2) == 0 {
			b.thin(r, 0.5*r.Float64())
		}
		g := b.EG()
		line("planar", c11Relabel(g, r.Perm(g.N)))
	}
	// non-planar by Euler's bound: a triangulation (3n-6 edges, one block) plus extra edges
	for c := 0; c < cases/5; c++ {
		n := 5 + r.Intn(maxN-4)
		b := c11NewB()
		vs := b.stacked(r, n, -1)
		for b.n*(b.n-1)/2 > len(b.es) && len(b.es) < 3*n-6+1+r.Intn(3) {
			b.e(vs[r.Intn(n)], vs[r.Intn(n)])
		}
		if len(b.es) > 3*n-6 {
			// extra planar pieces around it
			if r.Intn(2) == 0 {
				b.piece(r, 3+r.Intn(10), r.Intn(b.n))
			}
			g := b.EG()
			line("nonplanar", c11Relabel(g, r.Perm(g.N)))
		}
	}
	// brute force on 8..10 vertices
	nb := 250
	if thorough {
		nb = 3000
	}
	for c := 0; c < nb; c++ {
		n := 8 + r.Intn(3)
		var g EG
		if r.Intn(2) == 0 {
			b := c11NewB()
			b.stacked(r, n, -1)
			for i := r.Intn(3); i > 0; i-- {
				b.e(r.Intn(n), r.Intn(n))
			}
			g = c11DropEdges(b.EG(), r, 0.25*r.Float64())
		} else {
			g = randomEG(r, n, (1.0+2.2*r.Float64())/float64(n-1)*1.0)
		}
		line("brute", g.Relabel(r.Perm(n)))
	}
	if thorough { // every graph on 8 vertices, decided by brute force
		for _, g := range c11Classes(8) {
			line("brute", g.Relabel(r.Perm(8)))
		}
	}
	// unknown answer: sparse random graphs around the planarity threshold, named families
	for c := 0; c < cases/3; c++ {
		n := 11 + r.Intn(maxN-10)
		if r.Intn(2) == 0 {
			n = 11 + r.Intn(20)
		}
		var g EG
		if r.Intn(4) == 0 {
			g = namedEG(r, min(n, 40))
		} else {
			g = randomEG(r, n, (0.8+2.0*r.Float64())/float64(n-1))
		}
		line("meta", g)
	}
}
