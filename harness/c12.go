//go:build !verif_nodawg

package main

import (
	"bytes"
	"encoding/gob"
	"encoding/hex"
	"fmt"
	"math/rand"
	"sort"
	"strconv"
	"strings"

	"github.com/Tom-Johnston/mamba/dawg"
)

// Protocols (C12: dawg; C14: gob, gobdec, varint) — see lean/Mamba/Drv/C12.lean for the reply formats.
//
//	dawg   (a<hex> | n)* | (p<hex>)*     adds (n = nil slice, a = empty non-nil slice), then probes
//	gob    (a<hex> | n)* | (p<hex>)*     build, GobEncode, GobDecode, describe the decoded automaton, re-encode
//	gobdec <hex>|- [r]                   GobDecode of raw bytes (r: the bytes are a valid encoding; re-encode as well)
//	varint e <x> | varint d <hex>|-      encodeUint64 / decodeUint64
//
// Oracles (independent of the Lean model):
//   C12: Add accepted iff first word or > last accepted word; language of the automaton (enumerated from the node table) =
//        accepted words; NumberOfWords = their number; Lookup(w) = (rank, true) for members, false otherwise (members,
//        prefixes, extensions, neighbours); node count (numberOfNodes and table size) = number of distinct non-empty right
//        languages of prefixes of the set (1 for the empty set).
//   C14: decode(encode(d)) — directly and through encoding/gob — has the same shape, word count, node count, lookups;
//        encode(decode(encode(d))) = encode(d).

func c12ParseWord(tok string) ([]byte, bool) {
	if tok == "n" {
		return nil, true
	}
	if len(tok) == 0 || (tok[0] != 'a' && tok[0] != 'p') {
		return nil, false
	}
	b, err := hex.DecodeString(tok[1:])
	if err != nil {
		return nil, false
	}
	if b == nil {
		b = []byte{}
	}
	return b, true
}

func c12Parse(args []string) (adds, probes [][]byte, ok bool) {
	parts := splitTok(args, "|")
	if len(parts) != 2 {
		return nil, nil, false
	}
	for _, t := range parts[0] {
		w, ok := c12ParseWord(t)
		if !ok {
			return nil, nil, false
		}
		adds = append(adds, w)
	}
	for _, t := range parts[1] {
		w, ok := c12ParseWord(t)
		if !ok {
			return nil, nil, false
		}
		if w == nil {
			w = []byte{}
		}
		probes = append(probes, w)
	}
	return adds, probes, true
}

func c12ShowTable(tab []dawg.VerifNode) string {
	rows := make([]string, len(tab))
	for i, r := range tab {
		f := "0"
		if r.Final {
			f = "1"
		}
		tg := make([]string, len(r.Targets))
		for k, t := range r.Targets {
			tg[k] = strconv.FormatUint(t, 10)
		}
		rows[i] = fmt.Sprintf("%d:%s:%d:%s:%s", r.ID, f, r.NumWords, hex.EncodeToString(r.Labels), strings.Join(tg, ","))
	}
	return strings.Join(rows, ";")
}

func c12Describe(d *dawg.Dawg, probes [][]byte) string {
	var b strings.Builder
	fmt.Fprintf(&b, "nw=%d nn=%d tab=%s look=", d.NumberOfWords(), d.VerifNumberOfNodes(), c12ShowTable(d.VerifNodeTable()))
	for i, p := range probes {
		if i > 0 {
			b.WriteByte(',')
		}
		if r, ok := d.Lookup(p); ok {
			b.WriteString(strconv.Itoa(r))
		} else {
			b.WriteByte('-')
		}
	}
	return b.String()
}

// c12Build runs the adds on a zero-value Builder and finishes it.
func c12Build(adds [][]byte) (d *dawg.Dawg, errs []bool, ferr error) {
	db := new(dawg.Builder)
	for _, w := range adds {
		errs = append(errs, db.Add(w) != nil)
	}
	d, ferr = db.Finish()
	return
}

// c12Accepted: which adds the property says must be accepted, and the resulting strictly increasing word list.
func c12Accepted(adds [][]byte) (want []bool, ws [][]byte) {
	for _, w := range adds {
		if len(ws) == 0 || bytes.Compare(ws[len(ws)-1], w) < 0 {
			want = append(want, false)
			ws = append(ws, append([]byte{}, w...))
		} else {
			want = append(want, true)
		}
	}
	return
}

// c12Classes: number of distinct non-empty right languages of prefixes of the sorted duplicate-free list ws
// (ws is sorted, so the words with a given prefix are contiguous).
func c12Classes(ws [][]byte) int {
	seenPrefix := map[string]bool{}
	classes := map[string]bool{}
	var sig []byte
	for i, w := range ws {
		for l := 0; l <= len(w); l++ {
			p := string(w[:l])
			if seenPrefix[p] {
				continue
			}
			seenPrefix[p] = true
			sig = sig[:0]
			for j := i; j < len(ws) && len(ws[j]) >= l && string(ws[j][:l]) == p; j++ {
				v := ws[j]
				sig = append(sig, byte((len(v)-l)>>8), byte(len(v)-l))
				sig = append(sig, v[l:]...)
			}
			classes[string(sig)] = true
		}
	}
	return len(classes)
}

// c12Enumerate lists the words accepted from the first row of the table (at most limit of them), following labels in
// slice order. ok=false on a dangling target, a repeated id, or a path longer than the number of nodes (cycle).
func c12Enumerate(tab []dawg.VerifNode, limit int) (out [][]byte, why string) {
	idx := map[uint64]int{}
	for i, r := range tab {
		if _, dup := idx[r.ID]; dup {
			return nil, fmt.Sprintf("two reachable nodes carry id %d", r.ID)
		}
		idx[r.ID] = i
		if len(r.Labels) != len(r.Targets) {
			return nil, "labels and links of a node differ in length"
		}
	}
	if len(tab) == 0 {
		return nil, "empty node table"
	}
	var cur []byte
	var rec func(i int) string
	rec = func(i int) string {
		if len(cur) > len(tab) {
			return "cycle in the automaton"
		}
		if len(out) > limit {
			return ""
		}
		if tab[i].Final {
			out = append(out, append([]byte{}, cur...))
		}
		for k, l := range tab[i].Labels {
			j, ok := idx[tab[i].Targets[k]]
			if !ok {
				return "dangling link"
			}
			cur = append(cur, l)
			if e := rec(j); e != "" {
				return e
			}
			cur = cur[:len(cur)-1]
		}
		return ""
	}
	why = rec(0)
	return
}

func c12Key(w []byte) string { return string(w) }

// c12CheckLanguage: the automaton described by tab accepts exactly ws.
func c12CheckLanguage(tab []dawg.VerifNode, ws [][]byte) string {
	lang, why := c12Enumerate(tab, 2*len(ws)+16)
	if why != "" {
		return why
	}
	got := map[string]int{}
	for _, w := range lang {
		got[c12Key(w)]++
	}
	for _, w := range ws {
		if got[c12Key(w)] == 0 {
			return fmt.Sprintf("word %x was added but is not accepted by the automaton", w)
		}
	}
	in := map[string]bool{}
	for _, w := range ws {
		in[c12Key(w)] = true
	}
	for _, w := range lang {
		if !in[c12Key(w)] {
			return fmt.Sprintf("automaton accepts %x which was never (successfully) added", w)
		}
	}
	return ""
}

// c12Probes: members, prefixes, extensions, one-byte neighbours of ws plus random strings.
func c12Probes(r *rand.Rand, ws [][]byte, alpha []byte, n int) [][]byte {
	var out [][]byte
	pick := func() []byte {
		if len(ws) == 0 {
			return []byte{}
		}
		return append([]byte{}, ws[r.Intn(len(ws))]...)
	}
	for i := 0; i < n; i++ {
		w := pick()
		switch r.Intn(6) {
		case 0: // member
		case 1: // prefix
			w = w[:r.Intn(len(w)+1)]
		case 2: // extension
			w = append(w, alpha[r.Intn(len(alpha))])
		case 3: // neighbour
			if len(w) > 0 {
				w[r.Intn(len(w))] = alpha[r.Intn(len(alpha))]
			}
		case 4: // random
			w = make([]byte, r.Intn(5))
			for k := range w {
				w[k] = alpha[r.Intn(len(alpha))]
			}
		case 5: // foreign letter
			w = append(w[:r.Intn(len(w)+1)], byte(r.Intn(256)))
		}
		out = append(out, w)
	}
	return out
}

// c12CheckLookup: Lookup agrees with the rank in ws on members and rejects the given non-members.
func c12CheckLookup(d *dawg.Dawg, ws [][]byte, probes [][]byte) string {
	rank := map[string]int{}
	for i, w := range ws {
		rank[c12Key(w)] = i
		if r, ok := d.Lookup(w); !ok || r != i {
			return fmt.Sprintf("Lookup(%x) = (%d,%v), want (%d,true)", w, r, ok, i)
		}
	}
	check := func(p []byte) string {
		r, ok := d.Lookup(p)
		if i, mem := rank[c12Key(p)]; mem {
			if !ok || r != i {
				return fmt.Sprintf("Lookup(%x) = (%d,%v), want (%d,true)", p, r, ok, i)
			}
		} else if ok {
			return fmt.Sprintf("Lookup(%x) = (%d,true) but the word is not in the set", p, r)
		}
		return ""
	}
	for _, p := range probes {
		if e := check(p); e != "" {
			return e
		}
	}
	// systematic non-members: every proper prefix and every one-letter extension by the bytes 0, 'a', 255
	for _, w := range ws {
		for l := 0; l < len(w); l++ {
			if e := check(w[:l]); e != "" {
				return e
			}
		}
		for _, c := range []byte{0, 'a', 255} {
			if e := check(append(append([]byte{}, w...), c)); e != "" {
				return e
			}
		}
	}
	return ""
}

// c12Shape: the node table with ids replaced by positions (first-visit order), so that two automata with the same
// transition structure, finals and numWords compare equal whatever their ids.
func c12Shape(tab []dawg.VerifNode) string {
	pos := map[uint64]int{}
	for i, r := range tab {
		pos[r.ID] = i
	}
	var b strings.Builder
	for _, r := range tab {
		fmt.Fprintf(&b, "%v:%d:%x:", r.Final, r.NumWords, r.Labels)
		for _, t := range r.Targets {
			fmt.Fprintf(&b, "%d,", pos[t])
		}
		b.WriteByte(';')
	}
	return b.String()
}

func c12Tags(ws [][]byte, adds [][]byte, tab []dawg.VerifNode) []string {
	tags := []string{}
	if len(ws) >= 3 {
		tags = append(tags, "nontrivial")
	}
	if len(ws) != len(adds) {
		tags = append(tags, "has-rejected-add")
	}
	if len(ws) == 0 {
		tags = append(tags, "empty-set")
	}
	if len(ws) > 0 && len(ws[0]) == 0 {
		tags = append(tags, "has-empty-word")
	}
	total := 0
	maxdeg := 0
	for _, w := range ws {
		total += len(w)
	}
	for _, r := range tab {
		if len(r.Labels) > maxdeg {
			maxdeg = len(r.Labels)
		}
	}
	if len(tab) < total+1 {
		tags = append(tags, "sharing")
	}
	if maxdeg >= 128 {
		tags = append(tags, "branching>=128")
	}
	if len(ws) >= 128 {
		tags = append(tags, "words>=128")
	}
	if len(tab) >= 128 {
		tags = append(tags, "nodes>=128")
	}
	digits := len(ws) >= 30
	for _, w := range ws {
		for _, ch := range w {
			if ch >= 'A' {
				digits = false
			}
		}
	}
	if digits {
		tags = append(tags, "signature-adversarial")
	}
	return tags
}

func c12RunDawg(args []string) Result {
	adds, probes, ok := c12Parse(args)
	if !ok {
		return Result{Out: "bad-op"}
	}
	d, errs, ferr := c12Build(adds)
	if ferr != nil {
		return Result{Out: "finish-err", Oracle: "Finish returned an error: " + ferr.Error()}
	}
	var out strings.Builder
	out.WriteString("adds=")
	for _, e := range errs {
		if e {
			out.WriteByte('e')
		} else {
			out.WriteByte('o')
		}
	}
	out.WriteByte(' ')
	out.WriteString(c12Describe(d, probes))
	// ---- oracle ----
	oracle := ""
	fail := func(f string, a ...interface{}) {
		if oracle == "" {
			oracle = fmt.Sprintf(f, a...)
		}
	}
	want, ws := c12Accepted(adds)
	for i := range adds {
		if want[i] != errs[i] {
			if want[i] {
				fail("Add #%d (%x) is not greater than the previous accepted word but was accepted", i, adds[i])
			} else {
				fail("Add #%d (%x) is in order but was rejected", i, adds[i])
			}
		}
	}
	tab := d.VerifNodeTable()
	if e := c12CheckLanguage(tab, ws); e != "" {
		fail("%s", e)
	}
	if d.NumberOfWords() != len(ws) {
		fail("NumberOfWords = %d, want %d", d.NumberOfWords(), len(ws))
	}
	if e := c12CheckLookup(d, ws, probes); e != "" {
		fail("%s", e)
	}
	wantNodes := c12Classes(ws)
	if wantNodes == 0 {
		wantNodes = 1
	}
	if len(tab) != wantNodes {
		fail("automaton has %d nodes, the minimal automaton of the set has %d", len(tab), wantNodes)
	}
	if n := d.VerifNumberOfNodes(); n != wantNodes {
		fail("numberOfNodes = %d, the minimal automaton of the set has %d", n, wantNodes)
	}
	// dawg.New is the same builder run that stops at the first error
	if len(ws) == len(adds) {
		d2, err := dawg.New(adds)
		if err != nil {
			fail("New returned an error on an increasing list: %v", err)
		} else if c12ShowTable(d2.VerifNodeTable()) != c12ShowTable(tab) {
			fail("New and Builder give different automata")
		}
	} else if _, err := dawg.New(adds); err == nil {
		fail("New accepted a list that is not strictly increasing")
	}
	return Result{Out: out.String(), Oracle: oracle, Tags: c12Tags(ws, adds, tab)}
}

// c14Same: d2 behaves like d (shape, counts, lookups on ws and probes).
func c14Same(what string, d, d2 *dawg.Dawg, ws, probes [][]byte) string {
	t1, t2 := d.VerifNodeTable(), d2.VerifNodeTable()
	if c12Shape(t1) != c12Shape(t2) {
		return what + ": transition structure / finals / word counts differ from the original"
	}
	if d.NumberOfWords() != d2.NumberOfWords() {
		return fmt.Sprintf("%s: NumberOfWords %d, original %d", what, d2.NumberOfWords(), d.NumberOfWords())
	}
	if d.VerifNumberOfNodes() != d2.VerifNumberOfNodes() {
		return fmt.Sprintf("%s: node count %d, original %d", what, d2.VerifNumberOfNodes(), d.VerifNumberOfNodes())
	}
	for _, set := range [][][]byte{ws, probes} {
		for _, p := range set {
			r1, ok1 := d.Lookup(p)
			r2, ok2 := d2.Lookup(p)
			if r1 != r2 || ok1 != ok2 {
				return fmt.Sprintf("%s: Lookup(%x) = (%d,%v), original (%d,%v)", what, p, r2, ok2, r1, ok1)
			}
		}
	}
	return ""
}

// c14Unsafe pre-parses b the way GobDecode does, with the library's own integer decoder, and reports a count (nodes or
// children) that is larger than 4096 and than the number of bytes left: GobDecode would then try to allocate that many
// entries before failing, which can kill the process. It never triggers on the inputs the generators produce for the
// unchanged library (all counts there are small); it exists so that a broken integer codec shows up as an oracle
// failure and not as an out-of-memory crash of the harness.
func c14Unsafe(b []byte) (reason string) {
	defer func() {
		if recover() != nil {
			reason = ""
		}
	}()
	pos := 0
	next := func() (uint64, bool) {
		x, w, err := dawg.VerifDecodeUint64(b[pos:])
		if err != nil || w <= 0 || pos+w > len(b) {
			return 0, false
		}
		pos += w
		return x, true
	}
	big := func(x uint64) bool { return x > 4096 && x > uint64(len(b)-pos) }
	n, ok := next()
	if !ok {
		return ""
	}
	if big(n) {
		return fmt.Sprintf("a node count of %d for %d bytes of input", n, len(b))
	}
	for i := uint64(0); i < n; i++ {
		if _, ok := next(); !ok {
			return ""
		}
	}
	for i := uint64(0); i < n; i++ {
		if _, ok := next(); !ok {
			return ""
		}
		if _, ok := next(); !ok {
			return ""
		}
		pos++ // final flag
		c, ok := next()
		if !ok {
			return ""
		}
		if big(c) {
			return fmt.Sprintf("a child count of %d with %d bytes of input left", c, len(b)-pos)
		}
		for j := uint64(0); j < c; j++ {
			pos++ // label
			if pos > len(b) {
				return ""
			}
			if _, ok := next(); !ok {
				return ""
			}
		}
	}
	return ""
}

func c14RunGob(args []string) Result {
	adds, probes, ok := c12Parse(args)
	if !ok {
		return Result{Out: "bad-op"}
	}
	d, _, ferr := c12Build(adds)
	if ferr != nil {
		return Result{Out: "finish-err"}
	}
	_, ws := c12Accepted(adds)
	var enc []byte
	var err error
	if guard(func() string { enc, err = d.GobEncode(); return "ok" }) != "ok" {
		return Result{Out: "panic", Oracle: "GobEncode panicked", Tags: []string{"panic"}}
	}
	if err != nil {
		return Result{Out: "enc-err", Oracle: "GobEncode returned an error: " + err.Error()}
	}
	out := "enc=" + hex.EncodeToString(enc)
	oracle := ""
	fail := func(s string) {
		if oracle == "" && s != "" {
			oracle = s
		}
	}
	tags := c12Tags(ws, adds, d.VerifNodeTable())
	if why := c14Unsafe(enc); why != "" {
		return Result{Out: out + " dec=alloc", Oracle: "GobDecode of GobEncode's output would read " + why, Tags: tags}
	}
	d2 := new(dawg.Dawg)
	status := guard(func() string {
		if e := d2.GobDecode(enc); e != nil {
			return "err"
		}
		return "ok"
	})
	if status != "ok" {
		return Result{Out: out + " dec=" + status, Oracle: "GobDecode of GobEncode's output: " + status, Tags: tags}
	}
	rest := guard(func() string {
		s := c12Describe(d2, probes)
		re, err := d2.GobEncode()
		if err != nil {
			return "panic"
		}
		if bytes.Equal(re, enc) {
			return s + " re=same"
		}
		fail("encoding the decoded automaton again gives different bytes")
		return s + " re=" + hex.EncodeToString(re)
	})
	out += " dec=ok " + rest
	// GobDecode "replaces the current contents" of its receiver: decoding into a Dawg that already holds another
	// automaton (here: the words "", "a", "b") must give the same automaton as decoding into a fresh one.
	reused := guard(func() string {
		d3 := new(dawg.Dawg)
		old, e := dawg.New([][]byte{{}, {'a'}, {'b'}})
		if e != nil {
			return "skip"
		}
		oldEnc, e := old.GobEncode()
		if e != nil || c14Unsafe(oldEnc) != "" || d3.GobDecode(oldEnc) != nil {
			return "skip"
		}
		// the receiver has been encoded before it is decoded into: nothing remembered from that may survive
		if re0, e := d3.GobEncode(); e != nil || !bytes.Equal(re0, oldEnc) {
			return "skip"
		}
		if e := d3.GobDecode(enc); e != nil {
			return "err"
		}
		re, e := d3.GobEncode()
		if e != nil {
			return "err"
		}
		if !bytes.Equal(re, enc) || c12Describe(d3, probes) != c12Describe(d2, probes) {
			return "differs"
		}
		return "same"
	})
	if reused != "same" && reused != "skip" {
		fail("GobDecode into a receiver that already held another automaton (words \"\", a, b) gives a different automaton than a fresh decode: " + reused)
	}
	if rest == "panic" {
		fail("the decoded automaton panics when queried or encoded")
		return Result{Out: out, Oracle: oracle, Tags: tags}
	}
	fail(guard(func() string { return c14Same("decoded", d, d2, ws, probes) }))
	// through encoding/gob
	fail(guard(func() string {
		var buf bytes.Buffer
		if e := gob.NewEncoder(&buf).Encode(d); e != nil {
			return "encoding/gob Encode: " + e.Error()
		}
		d3 := new(dawg.Dawg)
		if e := gob.NewDecoder(&buf).Decode(d3); e != nil {
			return "encoding/gob Decode: " + e.Error()
		}
		if s := c14Same("through encoding/gob", d, d3, ws, probes); s != "" {
			return s
		}
		re, _ := d3.GobEncode()
		if !bytes.Equal(re, enc) {
			return "through encoding/gob: re-encoding gives different bytes"
		}
		return ""
	}))
	if oracle == "panic" {
		oracle = "panic while comparing the decoded automaton with the original"
	}
	return Result{Out: out, Oracle: oracle, Tags: tags}
}

func c14RunGobDec(args []string) Result {
	if len(args) < 1 {
		return Result{Out: "bad-op"}
	}
	var in []byte
	if args[0] != "-" {
		b, err := hex.DecodeString(args[0])
		if err != nil {
			return Result{Out: "bad-op"}
		}
		in = b
	}
	valid := len(args) == 2 && args[1] == "r"
	if why := c14Unsafe(in); why != "" {
		r := Result{Out: "err", Tags: []string{"gobdec-alloc"}}
		if valid {
			r.Oracle = "GobDecode of a well-formed encoding would read " + why
		}
		return r
	}
	d := new(dawg.Dawg)
	status := guard(func() string {
		if e := d.GobDecode(in); e != nil {
			return "err"
		}
		return "ok"
	})
	if status != "ok" {
		r := Result{Out: status, Tags: []string{"gobdec-" + status}}
		if valid {
			r.Oracle = "GobDecode of a well-formed encoding: " + status
		}
		return r
	}
	tab := d.VerifNodeTable()
	out := "ok tab=" + c12ShowTable(tab)
	oracle := ""
	tags := []string{"gobdec-ok"}
	if valid {
		tags = append(tags, "nontrivial")
		re := guard(func() string {
			b, err := d.GobEncode()
			if err != nil {
				return "panic"
			}
			return hex.EncodeToString(b)
		})
		out += " re=" + re
		// the property fixes no byte format, only that encode/decode/encode is stable (re is usually equal to the input,
		// which was written by an independent encoder following the documented format, but that is not demanded)
		if re == "panic" {
			oracle = "GobEncode of a decoded well-formed automaton panicked"
		} else {
			again := guard(func() string {
				d3 := new(dawg.Dawg)
				raw, _ := hex.DecodeString(re)
				if why := c14Unsafe(raw); why != "" {
					return "would read " + why
				}
				if e := d3.GobDecode(raw); e != nil {
					return "error " + e.Error()
				}
				if c12Shape(d3.VerifNodeTable()) != c12Shape(tab) {
					return "different automaton"
				}
				b, _ := d3.GobEncode()
				return hex.EncodeToString(b)
			})
			if again != re {
				oracle = "decode, encode, decode, encode is not stable: " + again
			}
		}
		// the decoded automaton must rank its own language consistently
		lang, why := c12Enumerate(tab, 100000)
		if why != "" {
			oracle = "decoded automaton: " + why
		} else if oracle == "" {
			sort.Slice(lang, func(i, j int) bool { return bytes.Compare(lang[i], lang[j]) < 0 })
			for i, w := range lang {
				if r, ok := d.Lookup(w); !ok || r != i {
					oracle = fmt.Sprintf("decoded automaton: Lookup(%x) = (%d,%v), want (%d,true)", w, r, ok, i)
					break
				}
			}
			if d.NumberOfWords() != len(lang) {
				oracle = fmt.Sprintf("decoded automaton: NumberOfWords %d but it accepts %d words", d.NumberOfWords(), len(lang))
			}
		}
	}
	return Result{Out: out, Oracle: oracle, Tags: tags}
}

// c14Varint is the documented integer format written independently: one byte if <= 127, else 128+k followed by the k
// significant bytes in big-endian order.
func c14Varint(x uint64) []byte {
	if x <= 127 {
		return []byte{byte(x)}
	}
	var be []byte
	for y := x; y > 0; y >>= 8 {
		be = append([]byte{byte(y)}, be...)
	}
	return append([]byte{byte(128 + len(be))}, be...)
}

func c14RunVarint(args []string) Result {
	if len(args) != 2 {
		return Result{Out: "bad-op"}
	}
	switch args[0] {
	case "e":
		x, err := strconv.ParseUint(args[1], 10, 64)
		if err != nil {
			return Result{Out: "bad-op"}
		}
		var b []byte
		if guard(func() string { b = dawg.VerifEncodeUint64(x); return "ok" }) != "ok" {
			return Result{Out: "panic", Oracle: fmt.Sprintf("encodeUint64(%d) panicked", x), Tags: []string{"nontrivial"}}
		}
		oracle := "" // only the round trip is demanded; the byte format itself is compared with the model, not judged
		var y uint64
		var w int
		var derr error
		if guard(func() string { y, w, derr = dawg.VerifDecodeUint64(b); return "ok" }) != "ok" {
			oracle = fmt.Sprintf("decodeUint64(encodeUint64(%d)) = decodeUint64(%x) panicked", x, b)
		} else if derr != nil || y != x || w != len(b) {
			oracle = fmt.Sprintf("decodeUint64(encodeUint64(%d)) = (%d, %d, %v)", x, y, w, derr)
		}
		return Result{Out: hex.EncodeToString(b), Oracle: oracle, Tags: []string{"nontrivial", fmt.Sprintf("varint-len-%d", len(b))}}
	case "d":
		var in []byte
		if args[1] != "-" {
			b, err := hex.DecodeString(args[1])
			if err != nil {
				return Result{Out: "bad-op"}
			}
			in = b
		}
		var x uint64
		var w int
		var err error
		if guard(func() string { x, w, err = dawg.VerifDecodeUint64(in); return "ok" }) != "ok" {
			return Result{Out: "panic", Tags: []string{"varint-dec-panic"}}
		}
		if err != nil {
			return Result{Out: "err", Tags: []string{"varint-dec-err"}}
		}
		return Result{Out: fmt.Sprintf("%d %d", x, w), Tags: []string{"varint-dec-ok"}}
	}
	return Result{Out: "bad-op"}
}

func init() {
	register(&Proto{Name: "dawg", Props: []string{"C12"}, Run: c12RunDawg, Gen: c12GenDawg})
	register(&Proto{Name: "gob", Props: []string{"C14"}, Run: c14RunGob, Gen: c14GenGob})
	register(&Proto{Name: "gobdec", Props: []string{"C14"}, Run: c14RunGobDec, Gen: c14GenGobDec})
	register(&Proto{Name: "varint", Props: []string{"C14"}, Run: c14RunVarint, Gen: c14GenVarint})
}
