package main

import (
	"fmt"
	"hash/fnv"
	"math/rand"
	"sort"
	"strconv"
	"strings"
	"time"

	"github.com/Tom-Johnston/mamba/graph"
	"github.com/Tom-Johnston/mamba/graph/search"
)

// C09 — clique and colouring invariants are exact and come with valid witnesses; invariant under relabelling and
// representation.
//
// Protocol c09:   c09 <flags> <n m u v ...> [order ...] [| colouring ...]*
//   reply = the values the library computes (sections selected by the letters of flags, same layout as
//   lean/Mamba/Drv/C09.lean which prints the verified specification values / the faithful models):
//     q w= a= mc=   c chi= kcol=   e ci=   d deg=   n cc=   p poly=   g greedy=   i ipc=
//   Witnesses (colourings, orderings) are NOT printed: they are validated by the oracle, so that a different but
//   still optimal witness stays quiet.
// Protocol c09w:  c09w <n m u v ...> (| section ...)*   the request carries witnesses produced by the library at
//   generation time; reply = verdict ok/bad per section by checkers written here (the Lean side answers with its
//   verified checkers); the oracle re-runs the library and validates what it returns now.
//
// Oracle (independent of the Lean model): brute force for small graphs (subset enumeration, plain backtracking, set
// partitions into independent sets), witness validation at every size, equality of all values across DenseGraph,
// SparseGraph, Complement(Complement) view, Complement view of the sparse complement, InducedSubgraph identity view and a
// random relabelling.

const (
	c09BFN     = 10 // brute force over vertex subsets up to this n
	c09BFChiN  = 10 // brute-force chromatic number up to this n
	c09BFEdges = 12 // brute-force chromatic index up to this many edges
	c09BFPolyN = 9  // brute-force colouring counts up to this n
)

// ---------- independent reference computations ----------

func c09Masks(g EG) []uint64 {
	a := make([]uint64, g.N)
	for _, e := range g.E {
		a[e[0]] |= 1 << uint(e[1])
		a[e[1]] |= 1 << uint(e[0])
	}
	return a
}

func c09Pop(x uint64) int {
	c := 0
	for x != 0 {
		c++
		x &= x - 1
	}
	return c
}

func c09MaskIsClique(a []uint64, s uint64) bool {
	for v := 0; v < len(a); v++ {
		if s>>uint(v)&1 == 1 && (s&^(1<<uint(v)))&^a[v] != 0 {
			return false
		}
	}
	return true
}

func c09MaskList(s uint64) []int {
	l := []int{}
	for v := 0; s != 0; v++ {
		if s&1 == 1 {
			l = append(l, v)
		}
		s >>= 1
	}
	return l
}

// c09BruteCliques enumerates all vertex subsets: clique number and the list of maximal cliques.
func c09BruteCliques(a []uint64) (omega int, maximal [][]int) {
	n := len(a)
	for s := uint64(0); s < 1<<uint(n); s++ {
		if !c09MaskIsClique(a, s) {
			continue
		}
		if c09Pop(s) > omega {
			omega = c09Pop(s)
		}
		max := true
		for v := 0; v < n; v++ {
			if s>>uint(v)&1 == 0 && s&^a[v] == 0 {
				max = false
				break
			}
		}
		if max {
			maximal = append(maximal, c09MaskList(s))
		}
	}
	return
}

// c09SimpleCliques: recursive Bron–Kerbosch on bit masks (pivot = vertex of P ∪ X with most neighbours in P), usable up
// to n = 64; written independently of the library's explicit-stack version.
func c09SimpleCliques(a []uint64, emit func(r uint64)) {
	var rec func(r, p, x uint64)
	rec = func(r, p, x uint64) {
		if p == 0 {
			if x == 0 {
				emit(r)
			}
			return
		}
		piv, best := -1, -1
		for v := 0; v < len(a); v++ {
			if (p|x)>>uint(v)&1 == 1 {
				if c := c09Pop(p & a[v]); c > best {
					piv, best = v, c
				}
			}
		}
		cand := p &^ a[piv]
		for v := 0; v < len(a); v++ {
			if cand>>uint(v)&1 == 0 {
				continue
			}
			b := uint64(1) << uint(v)
			rec(r|b, p&a[v], x&a[v])
			p &^= b
			x |= b
		}
	}
	all := uint64(0)
	if len(a) > 0 {
		all = (uint64(1) << uint(len(a))) - 1
	}
	rec(0, all, 0)
}

func c09Complement(g EG) EG {
	a := g.Adj()
	h := EG{N: g.N}
	for v := 0; v < g.N; v++ {
		for u := 0; u < v; u++ {
			if !a[u][v] {
				h.E = append(h.E, [2]int{u, v})
			}
		}
	}
	return h
}

// c09KColourable: plain backtracking over all colour assignments (no symmetry breaking).
func c09KColourable(a []uint64, k int) bool {
	n := len(a)
	col := make([]int, n)
	var rec func(i int) bool
	rec = func(i int) bool {
		if i == n {
			return true
		}
		for c := 0; c < k; c++ {
			ok := true
			for j := 0; j < i; j++ {
				if a[i]>>uint(j)&1 == 1 && col[j] == c {
					ok = false
					break
				}
			}
			if ok {
				col[i] = c
				if rec(i + 1) {
					return true
				}
			}
		}
		return false
	}
	return rec(0)
}

func c09BruteChi(a []uint64) int {
	for k := 0; ; k++ {
		if c09KColourable(a, k) {
			return k
		}
	}
}

// c09ColouringCounts returns the number of proper colourings with k colours for k = 0..kmax, computed from the
// numbers S_j of partitions of the vertex set into j non-empty independent sets: P(k) = sum_j S_j k(k-1)...(k-j+1).
func c09ColouringCounts(a []uint64, kmax int) []int64 {
	n := len(a)
	S := make([]int64, n+1)
	blocks := make([]uint64, 0, n)
	var rec func(v int)
	rec = func(v int) {
		if v == n {
			S[len(blocks)]++
			return
		}
		for b := range blocks {
			if blocks[b]&a[v] == 0 {
				blocks[b] |= 1 << uint(v)
				rec(v + 1)
				blocks[b] &^= 1 << uint(v)
			}
		}
		blocks = append(blocks, 1<<uint(v))
		rec(v + 1)
		blocks = blocks[:len(blocks)-1]
	}
	rec(0)
	out := make([]int64, kmax+1)
	for k := 0; k <= kmax; k++ {
		var tot int64
		for j := 0; j <= n; j++ {
			f := int64(1)
			for t := 0; t < j; t++ {
				f *= int64(k - t)
			}
			tot += S[j] * f
		}
		out[k] = tot
	}
	return out
}

// c09DirectCount: number of proper colourings with k colours by plain enumeration (cross-check of the above).
func c09DirectCount(a []uint64, k int) int64 {
	n := len(a)
	col := make([]int, n)
	var cnt int64
	var rec func(i int)
	rec = func(i int) {
		if i == n {
			cnt++
			return
		}
		for c := 0; c < k; c++ {
			ok := true
			for j := 0; j < i; j++ {
				if a[i]>>uint(j)&1 == 1 && col[j] == c {
					ok = false
					break
				}
			}
			if ok {
				col[i] = c
				rec(i + 1)
			}
		}
	}
	rec(0)
	return cnt
}

func c09BruteDegeneracy(a []uint64) int {
	n := len(a)
	best := 0
	for s := uint64(1); s < 1<<uint(n); s++ {
		mind := n
		for v := 0; v < n; v++ {
			if s>>uint(v)&1 == 1 {
				if d := c09Pop(a[v] & s); d < mind {
					mind = d
				}
			}
		}
		if mind > best {
			best = mind
		}
	}
	return best
}

// c09BruteChromaticIndex: least k such that the edges can be coloured 0..k-1 properly (plain backtracking on edges).
func c09BruteChromaticIndex(g EG) int {
	m := len(g.E)
	col := make([]int, m)
	var rec func(i, k int) bool
	rec = func(i, k int) bool {
		if i == m {
			return true
		}
		for c := 0; c < k; c++ {
			ok := true
			for j := 0; j < i; j++ {
				if col[j] == c && c09Share(g.E[i], g.E[j]) {
					ok = false
					break
				}
			}
			if ok {
				col[i] = c
				if rec(i+1, k) {
					return true
				}
			}
		}
		return false
	}
	for k := 0; ; k++ {
		if rec(0, k) {
			return k
		}
	}
}

func c09Share(e, f [2]int) bool {
	return e[0] == f[0] || e[0] == f[1] || e[1] == f[0] || e[1] == f[1]
}

// ---------- witness checkers (Go side; the Lean side has the verified ones) ----------

func c09ProperColouring(g EG, c []int) string {
	if c == nil && g.N > 0 {
		return "colouring is nil"
	}
	if len(c) != g.N {
		return fmt.Sprintf("colouring has length %d, want %d", len(c), g.N)
	}
	for _, x := range c {
		if x < 0 {
			return fmt.Sprintf("negative colour in %v", c)
		}
	}
	for _, e := range g.E {
		if c[e[0]] == c[e[1]] {
			return fmt.Sprintf("edge %d-%d is monochromatic in %v", e[0], e[1], c)
		}
	}
	return ""
}

// colours used are exactly 0..k-1
func c09UsesExactly(c []int, k int) bool {
	seen := make([]bool, k)
	for _, x := range c {
		if x < 0 || x >= k {
			return false
		}
		seen[x] = true
	}
	for _, s := range seen {
		if !s {
			return false
		}
	}
	return true
}

// c09EdgeColouring validates Go's edge-array format: 0 on non-edges, 1..k on edges, proper, all of 1..k used.
func c09EdgeColouring(g EG, b []int, k int) string {
	n := g.N
	if len(b) != n*(n-1)/2 {
		return fmt.Sprintf("edge colouring has length %d, want %d", len(b), n*(n-1)/2)
	}
	a := g.Adj()
	at := make([][]int, n) // colours at each vertex
	used := make([]bool, k+1)
	idx := 0
	for v := 0; v < n; v++ {
		for u := 0; u < v; u++ {
			x := b[idx]
			idx++
			if !a[u][v] {
				if x != 0 {
					return fmt.Sprintf("non-edge %d-%d has colour %d", u, v, x)
				}
				continue
			}
			if x < 1 || x > k {
				return fmt.Sprintf("edge %d-%d has colour %d outside 1..%d", u, v, x, k)
			}
			used[x] = true
			for _, w := range []int{u, v} {
				for _, y := range at[w] {
					if y == x {
						return fmt.Sprintf("two edges at vertex %d have colour %d", w, x)
					}
				}
				at[w] = append(at[w], x)
			}
		}
	}
	for c := 1; c <= k; c++ {
		if !used[c] {
			return fmt.Sprintf("colour %d of 1..%d is not used", c, k)
		}
	}
	return ""
}

// c09DegeneracyCert: order is a permutation, every vertex has at most d neighbours earlier in order, and some
// non-empty prefix of order induces a subgraph of minimum degree >= d (then d is exactly the degeneracy).
func c09DegeneracyCert(g EG, d int, order []int) string {
	n := g.N
	if n == 0 {
		if d != 0 || len(order) != 0 {
			return fmt.Sprintf("empty graph: got d=%d order=%v", d, order)
		}
		return ""
	}
	if len(order) != n {
		return fmt.Sprintf("ordering has length %d, want %d", len(order), n)
	}
	pos := make([]int, n)
	for i := range pos {
		pos[i] = -1
	}
	for i, v := range order {
		if v < 0 || v >= n || pos[v] != -1 {
			return fmt.Sprintf("ordering %v is not a permutation", order)
		}
		pos[v] = i
	}
	if d < 0 {
		return "negative degeneracy"
	}
	a := g.Adj()
	for v := 0; v < n; v++ {
		c := 0
		for u := 0; u < n; u++ {
			if a[v][u] && pos[u] < pos[v] {
				c++
			}
		}
		if c > d {
			return fmt.Sprintf("vertex %d is preceded by %d > %d neighbours in %v", v, c, d, order)
		}
	}
	for j := 1; j <= n; j++ {
		ok := true
		for _, v := range order[:j] {
			c := 0
			for _, u := range order[:j] {
				if a[v][u] {
					c++
				}
			}
			if c < d {
				ok = false
				break
			}
		}
		if ok {
			return ""
		}
	}
	return fmt.Sprintf("no prefix of %v induces a subgraph of minimum degree >= %d, so the degeneracy is smaller than %d", order, d, d)
}

func c09IsClique(g EG, s []int) bool {
	a := g.Adj()
	for i, u := range s {
		if u < 0 || u >= g.N {
			return false
		}
		for _, v := range s[:i] {
			if u == v || !a[u][v] {
				return false
			}
		}
	}
	return true
}

func c09IsMaximalClique(g EG, s []int) bool {
	if !c09IsClique(g, s) {
		return false
	}
	a := g.Adj()
	in := make([]bool, g.N)
	for _, v := range s {
		in[v] = true
	}
	for v := 0; v < g.N; v++ {
		if in[v] {
			continue
		}
		all := true
		for _, u := range s {
			if !a[u][v] {
				all = false
				break
			}
		}
		if all {
			return false
		}
	}
	return true
}

// ---------- calling the library ----------

// c09Try runs f with a time limit and converts a panic into an error string.
func c09Try(limit time.Duration, f func()) (err string) {
	done := make(chan string, 1)
	go func() {
		defer func() {
			if e := recover(); e != nil {
				done <- fmt.Sprint("panic: ", e)
			}
		}()
		f()
		done <- ""
	}()
	select {
	case s := <-done:
		return s
	case <-time.After(limit):
		return "did not terminate within " + limit.String()
	}
}

func c09SortCliques(cs [][]int) [][]int {
	out := make([][]int, len(cs))
	for i, c := range cs {
		out[i] = append([]int{}, c...)
		sort.Ints(out[i])
	}
	sort.Slice(out, func(i, j int) bool {
		a, b := out[i], out[j]
		for k := 0; k < len(a) && k < len(b); k++ {
			if a[k] != b[k] {
				return a[k] < b[k]
			}
		}
		return len(a) < len(b)
	})
	return out
}

func c09AllMaximalCliques(g graph.Graph) [][]int {
	ch := make(chan []int)
	go graph.AllMaximalCliques(g, ch)
	out := [][]int{}
	for c := range ch {
		out = append(out, append([]int{}, c...))
	}
	return out
}

func c09ShowCliques(cs [][]int) string {
	parts := make([]string, len(cs))
	for i, c := range cs {
		parts[i] = showInts(c)
	}
	return "[" + strings.Join(parts, " ") + "]"
}

func c09BytesToInts(b []byte) []int {
	out := make([]int, len(b))
	for i, x := range b {
		out[i] = int(x)
	}
	return out
}

func c09MaxDeg(g EG) int {
	d := make([]int, g.N)
	mx := 0
	for _, e := range g.E {
		d[e[0]]++
		d[e[1]]++
	}
	for _, x := range d {
		if x > mx {
			mx = x
		}
	}
	return mx
}

type c09Form struct {
	name string
	eg   EG          // the plain graph this form represents
	g    graph.Graph // the library representation
	ed   func() graph.EditableGraph
	perm []int // vertex i of this form is vertex perm[i] of the request graph (nil = identity)
}

func c09Forms(g EG, r *rand.Rand) []c09Form {
	id := make([]int, g.N)
	for i := range id {
		id[i] = i
	}
	p := r.Perm(g.N)
	h := g.Relabel(p)
	return []c09Form{
		{"dense", g, g.Dense(), func() graph.EditableGraph { return g.Dense() }, nil},
		{"sparse", g, g.Sparse(), func() graph.EditableGraph { return g.Sparse() }, nil},
		{"complement-of-complement view", g, graph.Complement(graph.Complement(g.Dense())), nil, nil},
		{"induced-subgraph identity view", g, graph.InducedSubgraph(g.Sparse(), id), nil, nil},
		{"complement view of the sparse complement", g, graph.Complement(c09Complement(g).Sparse()), nil, nil},
		{"relabelled dense", h, h.Dense(), func() graph.EditableGraph { return h.Dense() }, p},
		{"relabelled sparse", h, h.Sparse(), func() graph.EditableGraph { return h.Sparse() }, p},
	}
}

func c09Seed(args []string) int64 {
	h := fnv.New64a()
	for _, a := range args {
		h.Write([]byte(a))
		h.Write([]byte{' '})
	}
	return int64(h.Sum64() >> 1)
}

// values computed from one representation (what the reply prints), after validation of the witnesses
type c09Vals struct {
	w, a     int
	mc       [][]int // in the labels of the request graph, canonical order
	chi      int
	kcol     string
	kcolV    string
	chiCert  bool
	ci       int
	ciCert   bool
	ciDone   bool
	deg      int
	degCert  bool
	degDone  bool
	poly     []int
	cc       []int64
	greedy   string
	greedyC  []int // colouring in the labels of the request graph
	greedyMx int
}

func c09EvalPoly(p []int, k int) int64 {
	var v int64
	for i := len(p) - 1; i >= 0; i-- {
		v = v*int64(k) + int64(p[i])
	}
	return v
}

// c09Compute runs the library on one form for the selected sections and validates every witness it returns.
// order is given in the labels of the request graph.
func c09Compute(f c09Form, flags string, order []int, bf bool, fail func(string, ...interface{})) c09Vals {
	var v c09Vals
	g, eg, n := f.g, f.eg, f.eg.N
	back := func(x int) int { // label of this form -> label of the request graph
		if f.perm == nil {
			return x
		}
		return f.perm[x]
	}
	masks := c09Masks(eg)
	for _, fl := range flags {
		switch fl {
		case 'q', 'Q':
			if v.mc != nil {
				continue
			}
			v.w = graph.CliqueNumber(g)
			v.a = graph.IndependenceNumber(g)
			cs := c09AllMaximalCliques(g)
			seen := map[string]bool{}
			big := 0
			for _, c := range cs {
				if !c09IsMaximalClique(eg, c) {
					fail("%s: AllMaximalCliques reported %v which is not a maximal clique", f.name, c)
				}
				s := append([]int{}, c...)
				sort.Ints(s)
				if seen[fmt.Sprint(s)] {
					fail("%s: AllMaximalCliques reported %v twice", f.name, s)
				}
				seen[fmt.Sprint(s)] = true
				if len(c) > big {
					big = len(c)
				}
			}
			// completeness and the two numbers against the plain enumeration
			cnt, om := 0, 0
			c09SimpleCliques(masks, func(r uint64) {
				cnt++
				if c09Pop(r) > om {
					om = c09Pop(r)
				}
				s := c09MaskList(r)
				if !seen[fmt.Sprint(s)] {
					fail("%s: AllMaximalCliques missed the maximal clique %v", f.name, s)
				}
			})
			if v.w != om {
				fail("%s: CliqueNumber=%d but the largest clique has %d vertices", f.name, v.w, om)
			}
			al := 0
			c09SimpleCliques(c09Masks(c09Complement(eg)), func(r uint64) {
				if c09Pop(r) > al {
					al = c09Pop(r)
				}
			})
			if v.a != al {
				fail("%s: IndependenceNumber=%d but the largest independent set has %d vertices", f.name, v.a, al)
			}
			if bf && n <= c09BFN {
				bw, bm := c09BruteCliques(masks)
				if bw != v.w {
					fail("%s: CliqueNumber=%d, subset enumeration gives %d", f.name, v.w, bw)
				}
				if len(bm) != len(cs) {
					fail("%s: AllMaximalCliques reported %d cliques, subset enumeration finds %d", f.name, len(cs), len(bm))
				}
			}
			mapped := make([][]int, len(cs))
			for i, c := range cs {
				mapped[i] = make([]int, len(c))
				for j, x := range c {
					if x >= 0 && x < n {
						mapped[i][j] = back(x)
					}
				}
			}
			v.mc = c09SortCliques(mapped)
		case 'c', 'C':
			if v.kcol != "" {
				continue
			}
			chi, col := graph.ChromaticNumber(g)
			v.chi = chi
			v.chiCert = c09ProperColouring(eg, col) == "" && c09UsesExactly(col, chi)
			if msg := c09ProperColouring(eg, col); msg != "" {
				fail("%s: ChromaticNumber=%d with colouring %v: %s", f.name, chi, col, msg)
			} else if !c09UsesExactly(col, chi) {
				fail("%s: ChromaticNumber=%d but the colouring %v does not use exactly the colours 0..%d", f.name, chi, col, chi-1)
			}
			want := -1
			if bf && n <= c09BFChiN {
				want = c09BruteChi(masks)
				if chi != want {
					fail("%s: ChromaticNumber=%d, exhaustive search gives %d", f.name, chi, want)
				}
			}
			var sb, sv strings.Builder
			for k := 0; k <= n+1; k++ {
				ok, c := graph.IsKColorable(g, k)
				if ok {
					good := c09ProperColouring(eg, c) == ""
					for _, x := range c {
						if x >= k {
							good = false
						}
					}
					if good {
						sv.WriteByte('1')
					} else {
						sv.WriteByte('X')
					}
					sb.WriteByte('1')
					if msg := c09ProperColouring(eg, c); msg != "" {
						fail("%s: IsKColorable(%d)=true with colouring %v: %s", f.name, k, c, msg)
					} else {
						for _, x := range c {
							if x >= k {
								fail("%s: IsKColorable(%d)=true but the colouring %v uses colour %d", f.name, k, c, x)
								break
							}
						}
					}
				} else {
					sb.WriteByte('0')
					sv.WriteByte('0')
					if c != nil {
						fail("%s: IsKColorable(%d)=false with a non-nil colouring", f.name, k)
					}
				}
				if want >= 0 && ok != (k >= want) {
					fail("%s: IsKColorable(%d)=%v but the chromatic number is %d", f.name, k, ok, want)
				}
			}
			v.kcol = sb.String()
			v.kcolV = sv.String()
		case 'e', 'E':
			if v.ciDone {
				continue
			}
			v.ciDone = true
			ci, b := graph.ChromaticIndex(g)
			v.ci = ci
			v.ciCert = c09EdgeColouring(eg, c09BytesToInts(b), ci) == ""
			if msg := c09EdgeColouring(eg, c09BytesToInts(b), ci); msg != "" {
				fail("%s: ChromaticIndex=%d with %v: %s", f.name, ci, b, msg)
			}
			if len(eg.E) > 0 {
				if D := c09MaxDeg(eg); ci != D && ci != D+1 {
					fail("%s: ChromaticIndex=%d is not in {Δ, Δ+1} with Δ=%d", f.name, ci, D)
				}
			} else if ci != 0 {
				fail("%s: ChromaticIndex=%d for a graph without edges", f.name, ci)
			}
			if bf && len(eg.E) <= c09BFEdges {
				if want := c09BruteChromaticIndex(eg); ci != want {
					fail("%s: ChromaticIndex=%d, exhaustive search gives %d", f.name, ci, want)
				}
			}
		case 'd', 'D':
			if v.degDone {
				continue
			}
			v.degDone = true
			d, o := graph.Degeneracy(g)
			v.deg = d
			v.degCert = c09DegeneracyCert(eg, d, o) == ""
			if msg := c09DegeneracyCert(eg, d, o); msg != "" {
				fail("%s: Degeneracy=%d: %s", f.name, d, msg)
			}
			if bf && n <= c09BFN {
				if want := c09BruteDegeneracy(masks); d != want {
					fail("%s: Degeneracy=%d, subset enumeration gives %d", f.name, d, want)
				}
			}
		case 'n', 'p':
			if v.poly != nil || f.ed == nil {
				continue
			}
			e := f.ed()
			before := fromGraph(e)
			v.poly = graph.ChromaticPolynomial(e)
			if showEG(fromGraph(e)) != showEG(before) {
				fail("%s: ChromaticPolynomial modified its argument", f.name)
			}
			if len(v.poly) != n+1 {
				fail("%s: ChromaticPolynomial returned %d coefficients for n=%d", f.name, len(v.poly), n)
			}
			v.cc = make([]int64, n+2)
			for k := range v.cc {
				v.cc[k] = c09EvalPoly(v.poly, k)
			}
			if bf && n <= c09BFPolyN {
				want := c09ColouringCounts(masks, n+1)
				for k := range want {
					if v.cc[k] != want[k] {
						fail("%s: ChromaticPolynomial %v evaluates to %d at k=%d but there are %d proper colourings", f.name, v.poly, v.cc[k], k, want[k])
						break
					}
				}
				if n <= 6 {
					for k := range want {
						if d := c09DirectCount(masks, k); d != want[k] {
							fail("harness self-check: direct count %d differs from partition count %d at k=%d", d, want[k], k)
						}
					}
				}
			}
		case 'g':
			// order in this form's labels
			o := make([]int, len(order))
			inv := make([]int, n)
			for i := 0; i < n; i++ {
				inv[back(i)] = i
			}
			valid := len(order) == n
			for i, x := range order {
				if x < 0 || x >= n {
					valid = false
					o[i] = x
				} else {
					o[i] = inv[x]
				}
			}
			seenV := make([]bool, n)
			for _, x := range order {
				if x >= 0 && x < n {
					if seenV[x] {
						valid = false
					}
					seenV[x] = true
				}
			}
			var mx int
			var c []int
			res := guard(func() string { mx, c = graph.GreedyColor(g, o); return "" })
			if res == "panic" {
				v.greedy = "panic"
				if len(order) == n && valid {
					fail("%s: GreedyColor panicked on the valid order %v", f.name, o)
				}
				continue
			}
			if len(order) != n {
				fail("%s: GreedyColor did not panic for an order of length %d (n=%d)", f.name, len(order), n)
			}
			cb := make([]int, len(c))
			for i := range c {
				cb[back(i)] = c[i]
			}
			v.greedyC, v.greedyMx = cb, mx
			v.greedy = strconv.Itoa(mx) + ":" + showInts(cb)
			if valid {
				if msg := c09ProperColouring(eg, c); msg != "" {
					fail("%s: GreedyColor(%v)=%v: %s", f.name, o, c, msg)
				} else {
					a := eg.Adj()
					done := make([]bool, n)
					m := -1
					for _, x := range o {
						used := map[int]bool{}
						for u := 0; u < n; u++ {
							if a[x][u] && done[u] {
								used[c[u]] = true
							}
						}
						ff := 0
						for used[ff] {
							ff++
						}
						if c[x] != ff {
							fail("%s: GreedyColor(%v)=%v is not first-fit at vertex %d (smallest free colour %d)", f.name, o, c, x, ff)
							break
						}
						done[x] = true
						if c[x] > m {
							m = c[x]
						}
					}
					if mx != m {
						fail("%s: GreedyColor(%v) returned max colour %d but the colouring %v has max %d", f.name, o, mx, c, m)
					}
				}
			}
		}
	}
	return v
}

func c09ParseCol(toks []string) (c []int, isNil bool) {
	if len(toks) == 1 && toks[0] == "nil" {
		return nil, true
	}
	return atois(toks), false
}

func c09Run(args []string) Result {
	flags := args[0]
	g, rest := parseEG(args[1:])
	groups := splitTok(rest, "|")
	order := atois(groups[0])
	oracle := ""
	fail := func(f string, a ...interface{}) {
		if oracle == "" {
			oracle = fmt.Sprintf(f, a...)
		}
	}
	r := rand.New(rand.NewSource(c09Seed(args)))
	forms := c09Forms(g, r)
	vals := make([]c09Vals, len(forms))
	for i, f := range forms {
		vals[i] = c09Compute(f, flags, order, i == 0, fail)
	}
	v := vals[0]
	for i := 1; i < len(forms); i++ {
		w := vals[i]
		nm := forms[i].name
		for _, fl := range flags {
			switch fl {
			case 'q', 'Q':
				if w.w != v.w || w.a != v.a {
					fail("%s: clique/independence number %d/%d differ from dense %d/%d", nm, w.w, w.a, v.w, v.a)
				}
				if c09ShowCliques(w.mc) != c09ShowCliques(v.mc) {
					fail("%s: maximal cliques %v differ from dense %v", nm, w.mc, v.mc)
				}
			case 'c', 'C':
				if w.chi != v.chi || w.kcol != v.kcol {
					fail("%s: chromatic number %d / k-colourability %s differ from dense %d / %s", nm, w.chi, w.kcol, v.chi, v.kcol)
				}
			case 'e', 'E':
				if w.ci != v.ci {
					fail("%s: chromatic index %d differs from dense %d", nm, w.ci, v.ci)
				}
			case 'd', 'D':
				if w.deg != v.deg {
					fail("%s: degeneracy %d differs from dense %d", nm, w.deg, v.deg)
				}
			case 'n', 'p':
				if w.poly != nil && showInts(w.poly) != showInts(v.poly) {
					fail("%s: chromatic polynomial %v differs from dense %v", nm, w.poly, v.poly)
				}
			case 'g':
				if w.greedy != v.greedy {
					fail("%s: greedy colouring %s differs from dense %s (both in the labels of the request)", nm, w.greedy, v.greedy)
				}
			}
		}
	}
	// IsProperColouring on the given colourings, every form that keeps the labels
	ipc := ""
	if strings.ContainsRune(flags, 'i') {
		var sb strings.Builder
		for _, grp := range groups[1:] {
			c, isNil := c09ParseCol(grp)
			if !isNil && c == nil {
				c = []int{}
			}
			want := !isNil && c09ProperColouring(g, c) == "" && len(c) == g.N
			for _, f := range forms[:4] {
				got := graph.IsProperColouring(f.g, c)
				if got != want {
					fail("%s: IsProperColouring(%v)=%v, by definition %v", f.name, c, got, want)
				}
			}
			if graph.IsProperColouring(forms[0].g, c) {
				sb.WriteByte('1')
			} else {
				sb.WriteByte('0')
			}
		}
		ipc = sb.String()
	}
	parts := []string{}
	for _, fl := range flags {
		switch fl {
		case 'q':
			parts = append(parts, fmt.Sprintf("w=%d a=%d mc=%s", v.w, v.a, c09ShowCliques(v.mc)))
		case 'Q':
			parts = append(parts, fmt.Sprintf("W=%d A=%d MC=%s", v.w, v.a, c09ShowCliques(v.mc)))
		case 'O':
			parts = append(parts, "MCo="+c09ShowCliques(c09AllMaximalCliques(forms[0].g)))
		case 'D':
			parts = append(parts, fmt.Sprintf("DEG=%d cert=%s", v.deg, c09Verdict(v.degCert)))
		case 'o':
			dd, oo := graph.Degeneracy(forms[0].g)
			parts = append(parts, fmt.Sprintf("DEGo=%d:%s", dd, showInts(oo)))
		case 'C':
			parts = append(parts, fmt.Sprintf("CHI=%d cert=%s KCOL=%s", v.chi, c09Verdict(v.chiCert), v.kcolV))
		case 'E':
			parts = append(parts, fmt.Sprintf("CI=%d cert=%s", v.ci, c09Verdict(v.ciCert)))
		case 'y':
			ci, b := graph.ChromaticIndex(forms[0].g)
			parts = append(parts, fmt.Sprintf("CIo=%d:%s", ci, showInts(c09BytesToInts(b))))
		case 'x':
			chi, col := graph.ChromaticNumber(forms[0].g)
			ks := []string{}
			for k := 0; k <= g.N+1; k++ {
				ok, c := graph.IsKColorable(forms[0].g, k)
				if c == nil {
					ks = append(ks, fmt.Sprintf("%v:nil", ok))
				} else {
					ks = append(ks, fmt.Sprintf("%v:%s", ok, showInts(c)))
				}
			}
			parts = append(parts, fmt.Sprintf("CHIo=%d:%s KCOLo=%s", chi, showInts(col), strings.Join(ks, " ")))
		case 'c':
			parts = append(parts, fmt.Sprintf("chi=%d kcol=%s", v.chi, v.kcol))
		case 'e':
			parts = append(parts, fmt.Sprintf("ci=%d", v.ci))
		case 'd':
			parts = append(parts, fmt.Sprintf("deg=%d", v.deg))
		case 'n':
			ss := make([]string, len(v.cc))
			for i, x := range v.cc {
				ss[i] = strconv.FormatInt(x, 10)
			}
			parts = append(parts, "cc=["+strings.Join(ss, " ")+"]")
		case 'p':
			parts = append(parts, "poly="+showInts(v.poly))
		case 'g':
			parts = append(parts, "greedy="+v.greedy)
		case 'i':
			parts = append(parts, "ipc="+ipc)
		default:
			parts = append(parts, "?")
		}
	}
	tags := []string{fmt.Sprintf("n=%d", g.N)}
	if g.N >= 4 && len(g.E) >= 3 {
		tags = append(tags, "nontrivial")
	}
	for _, fl := range flags {
		tags = append(tags, "sec-"+string(fl))
	}
	if strings.ContainsRune(flags, 'c') && strings.ContainsRune(flags, 'q') {
		if v.chi > v.w {
			tags = append(tags, "chi>omega")
		}
	}
	if strings.ContainsRune(flags, 'e') && len(g.E) > 0 && v.ci == c09MaxDeg(g)+1 {
		tags = append(tags, "class2")
	}
	return Result{Out: strings.Join(parts, " "), Oracle: oracle, Tags: tags}
}

// ---------- c09w ----------

type c09Wit struct {
	chi    int
	col    []int
	ks     []int
	kok    []bool
	kcol   [][]int
	ci     int
	ecol   []int
	hasE   bool
	d      int
	order  []int
	w      int
	clq    []int
	mc     [][]int
	okChi  bool
	okDeg  bool
	okClq  bool
	slow   []string // items skipped because the exact search was slow on a large graph
	errors []string
}

// c09Witnesses calls the library on the dense form and collects the witnesses.
func c09Witnesses(g EG, ks []int, withEdge bool) c09Wit {
	var w c09Wit
	d := g.Dense()
	// Small graphs must be answered at once; on larger ones a slow answer of the exact branch and bound is not a
	// property failure (only a wrong one is): the item is skipped and tagged.
	lim := 20 * time.Second
	if g.N > 12 {
		lim = 3 * time.Second
	}
	note := func(what, e string) {
		if strings.HasPrefix(e, "did not terminate") && g.N > 12 {
			w.slow = append(w.slow, what)
		} else {
			w.errors = append(w.errors, what+" "+e)
		}
	}
	{
		var chi int
		var col []int
		if e := c09Try(lim, func() { chi, col = graph.ChromaticNumber(d) }); e != "" {
			note("ChromaticNumber", e)
		} else {
			w.okChi, w.chi, w.col = true, chi, col
		}
	}
	if w.okChi {
		for _, k := range ks {
			var ok bool
			var c []int
			if e := c09Try(lim, func() { ok, c = graph.IsKColorable(d, k) }); e != "" {
				note(fmt.Sprintf("IsKColorable(%d)", k), e)
				if len(w.slow) > 0 {
					break
				}
				continue
			}
			w.ks = append(w.ks, k)
			w.kok = append(w.kok, ok)
			w.kcol = append(w.kcol, c)
		}
	}
	if withEdge {
		var ci int
		var b []byte
		if e := c09Try(lim, func() { ci, b = graph.ChromaticIndex(d) }); e != "" {
			note("ChromaticIndex", e)
		} else {
			w.hasE, w.ci, w.ecol = true, ci, c09BytesToInts(b)
		}
	}
	{
		var dg int
		var o []int
		if e := c09Try(lim, func() { dg, o = graph.Degeneracy(d) }); e != "" {
			note("Degeneracy", e)
		} else {
			w.okDeg, w.d, w.order = true, dg, o
		}
	}
	{
		var cn int
		var mc [][]int
		if e := c09Try(lim, func() {
			cn = graph.CliqueNumber(d)
			mc = c09AllMaximalCliques(d)
		}); e != "" {
			note("CliqueNumber/AllMaximalCliques", e)
		} else {
			w.okClq, w.w, w.mc = true, cn, mc
		}
	}
	for _, c := range w.mc {
		if len(c) == w.w {
			w.clq = c
			break
		}
	}
	return w
}

func (w c09Wit) Tokens() string {
	var b strings.Builder
	if w.okChi {
		fmt.Fprintf(&b, " | col %d %s", w.chi, joinInts(w.col))
	}
	for i, k := range w.ks {
		ok := 0
		if w.kok[i] {
			ok = 1
		}
		fmt.Fprintf(&b, " | kcol %d %d %s", k, ok, joinInts(w.kcol[i]))
	}
	if w.hasE {
		fmt.Fprintf(&b, " | ecol %d %s", w.ci, joinInts(w.ecol))
	}
	if w.okDeg {
		fmt.Fprintf(&b, " | deg %d %s", w.d, joinInts(w.order))
	}
	if w.okClq {
		fmt.Fprintf(&b, " | clq %d %s", w.w, joinInts(w.clq))
		fmt.Fprintf(&b, " | mc %d", len(w.mc))
		for i, c := range w.mc {
			if i > 0 {
				b.WriteString(" ;")
			}
			if len(c) > 0 {
				b.WriteString(" " + joinInts(c))
			}
		}
	}
	return strings.Join(strings.Fields(b.String()), " ")
}

func c09Verdict(ok bool) string {
	if ok {
		return "ok"
	}
	return "bad"
}

func c09NonNeg(a []int) bool {
	for _, x := range a {
		if x < 0 {
			return false
		}
	}
	return true
}

// c09CheckSection is the Go counterpart of Drv.C09.checkSection.
func c09CheckSection(g EG, s []string) string {
	if len(s) < 2 {
		return "bad-op"
	}
	head := atoi(s[1])
	switch s[0] {
	case "col":
		c := atois(s[2:])
		return "col=" + c09Verdict(head >= 0 && c09ProperColouring(g, c) == "" && c09UsesExactly(c, head))
	case "kcol":
		if len(s) < 3 {
			return "bad-op"
		}
		c := atois(s[3:])
		if s[2] != "1" {
			return "kcol=" + c09Verdict(head >= 0 && len(c) == 0)
		}
		ok := head >= 0 && c09ProperColouring(g, c) == ""
		for _, x := range c {
			if x >= head {
				ok = false
			}
		}
		return "kcol=" + c09Verdict(ok)
	case "ecol":
		b := atois(s[2:])
		return "ecol=" + c09Verdict(head >= 0 && c09NonNeg(b) && c09EdgeColouring(g, b, head) == "")
	case "deg":
		o := atois(s[2:])
		return "deg=" + c09Verdict(head >= 0 && c09NonNeg(o) && c09DegeneracyCert(g, head, o) == "")
	case "clq":
		c := atois(s[2:])
		return "clq=" + c09Verdict(head >= 0 && c09NonNeg(c) && c09IsClique(g, c) && len(c) == head)
	case "mc":
		var cs [][]int
		if s[1] != "0" {
			for _, t := range splitTok(s[2:], ";") {
				cs = append(cs, atois(t))
			}
		}
		ok := len(cs) > 0 && strconv.Itoa(len(cs)) == s[1]
		seen := map[string]bool{}
		for _, c := range cs {
			if !c09NonNeg(c) || !c09IsMaximalClique(g, c) {
				ok = false
				break
			}
			t := append([]int{}, c...)
			sort.Ints(t)
			if seen[fmt.Sprint(t)] {
				ok = false
			}
			seen[fmt.Sprint(t)] = true
		}
		return "mc=" + c09Verdict(ok)
	}
	return "bad-op"
}

func c09RunW(args []string) Result {
	g, rest := parseEG(args)
	secs := splitTok(rest, "|")[1:]
	parts := make([]string, len(secs))
	ks := []int{}
	withEdge := false
	for i, s := range secs {
		parts[i] = c09CheckSection(g, s)
		if len(s) > 1 && s[0] == "kcol" {
			ks = append(ks, atoi(s[1]))
		}
		if len(s) > 0 && s[0] == "ecol" {
			withEdge = true
		}
	}
	// oracle: what the library returns NOW must be valid (the request's witnesses were produced at generation time,
	// or are deliberately corrupted copies)
	oracle := ""
	fail := func(f string, a ...interface{}) {
		if oracle == "" {
			oracle = fmt.Sprintf(f, a...)
		}
	}
	w := c09Witnesses(g, ks, withEdge)
	for _, e := range w.errors {
		fail("%s", e)
	}
	if oracle == "" {
		masks := c09Masks(g)
		om := 0
		nmc := 0
		c09SimpleCliques(masks, func(r uint64) {
			nmc++
			if c09Pop(r) > om {
				om = c09Pop(r)
			}
		})
		if w.okChi {
			if msg := c09ProperColouring(g, w.col); msg != "" {
				fail("ChromaticNumber=%d with colouring %v: %s", w.chi, w.col, msg)
			} else if !c09UsesExactly(w.col, w.chi) {
				fail("ChromaticNumber=%d but the colouring %v does not use exactly the colours 0..%d", w.chi, w.col, w.chi-1)
			}
			if w.chi < om {
				fail("ChromaticNumber=%d is smaller than the clique number %d", w.chi, om)
			}
		}
		if w.okClq {
			if w.w != om {
				fail("CliqueNumber=%d but the largest clique has %d vertices", w.w, om)
			}
			if len(w.mc) != nmc {
				fail("AllMaximalCliques reported %d cliques, plain enumeration finds %d", len(w.mc), nmc)
			}
			seen := map[string]bool{}
			for _, c := range w.mc {
				t := append([]int{}, c...)
				sort.Ints(t)
				if !c09IsMaximalClique(g, c) {
					fail("AllMaximalCliques reported %v which is not a maximal clique", c)
				} else if seen[fmt.Sprint(t)] {
					fail("AllMaximalCliques reported %v twice", t)
				}
				seen[fmt.Sprint(t)] = true
			}
		}
		for i, k := range w.ks {
			if w.kok[i] {
				if msg := c09ProperColouring(g, w.kcol[i]); msg != "" {
					fail("IsKColorable(%d)=true with colouring %v: %s", k, w.kcol[i], msg)
				}
				for _, x := range w.kcol[i] {
					if x >= k {
						fail("IsKColorable(%d)=true but the colouring %v uses colour %d", k, w.kcol[i], x)
						break
					}
				}
				if k < om {
					fail("IsKColorable(%d)=true but there is a clique with %d vertices", k, om)
				}
			} else if w.okChi && k >= w.chi && w.chi >= 0 {
				fail("IsKColorable(%d)=false but ChromaticNumber returned a proper colouring with %d colours", k, w.chi)
			}
		}
		if w.hasE {
			if msg := c09EdgeColouring(g, w.ecol, w.ci); msg != "" {
				fail("ChromaticIndex=%d with %v: %s", w.ci, w.ecol, msg)
			}
			if len(g.E) > 0 {
				if D := c09MaxDeg(g); w.ci != D && w.ci != D+1 {
					fail("ChromaticIndex=%d is not in {Δ, Δ+1} with Δ=%d", w.ci, D)
				}
			}
		}
		if w.okDeg {
			if msg := c09DegeneracyCert(g, w.d, w.order); msg != "" {
				fail("Degeneracy=%d: %s", w.d, msg)
			}
			if w.okChi && w.chi > w.d+1 {
				fail("ChromaticNumber=%d exceeds degeneracy+1=%d", w.chi, w.d+1)
			}
		}
	}
	tags := []string{fmt.Sprintf("w-n=%d", g.N)}
	if g.N >= 4 && len(g.E) >= 3 {
		tags = append(tags, "nontrivial")
	}
	if len(w.slow) > 0 {
		tags = append(tags, "slow-skipped")
	}
	for _, p := range parts {
		if strings.HasSuffix(p, "=bad") {
			tags = append(tags, "verdict-bad")
			break
		}
	}
	return Result{Out: strings.Join(parts, " "), Oracle: oracle, Tags: tags}
}

// ---------- generators ----------

func c09RandColouring(r *rand.Rand, g EG) []int {
	// first-fit in a random order, then maybe perturbed
	n := g.N
	a := g.Adj()
	c := make([]int, n)
	for i := range c {
		c[i] = -1
	}
	for _, v := range r.Perm(n) {
		used := map[int]bool{}
		for u := 0; u < n; u++ {
			if a[v][u] && c[u] >= 0 {
				used[c[u]] = true
			}
		}
		x := 0
		for used[x] {
			x++
		}
		if r.Intn(4) == 0 {
			x += r.Intn(3)
			for used[x] {
				x++
			}
		}
		c[v] = x
	}
	return c
}

func c09ColGroups(r *rand.Rand, g EG) string {
	var b strings.Builder
	k := 1 + r.Intn(4)
	for i := 0; i < k; i++ {
		b.WriteString(" |")
		c := c09RandColouring(r, g)
		switch r.Intn(8) {
		case 0:
			b.WriteString(" nil")
			continue
		case 1: // wrong length
			if r.Intn(2) == 0 && len(c) > 0 {
				c = c[:len(c)-1]
			} else {
				c = append(c, 0)
			}
		case 2: // a negative entry
			if len(c) > 0 {
				c[r.Intn(len(c))] = -1 - r.Intn(2)
			}
		case 3, 4: // copy a colour along a random pair (often an edge)
			if len(g.E) > 0 && r.Intn(3) > 0 {
				e := g.E[r.Intn(len(g.E))]
				c[e[0]] = c[e[1]]
			} else if len(c) > 1 {
				c[r.Intn(len(c))] = c[r.Intn(len(c))]
			}
		}
		if len(c) > 0 {
			b.WriteString(" " + joinInts(c))
		}
	}
	return b.String()
}

// c09Flags chooses the sections whose reference computation (Lean side and brute force here) is affordable.
func c09Flags(g EG, tier string) string {
	n, m := g.N, len(g.E)
	fl := ""
	if n <= 10 {
		fl += "qQcCdD"
	}
	me := 9
	if tier == "thorough" {
		me = 11
	}
	if n <= 10 && m <= me {
		fl += "eE"
	}
	if n <= 6 {
		fl += "n"
	}
	if n <= 7 && m <= 12 {
		fl += "p"
	}
	return fl + "gi"
}

func c09Order(r *rand.Rand, g EG) string {
	p := r.Perm(g.N)
	switch r.Intn(40) {
	case 0:
		p = append(p, 0)
	case 1:
		if len(p) > 0 {
			p = p[1:]
		}
	}
	if len(p) == 0 {
		return ""
	}
	return " " + joinInts(p)
}

func c09Req(r *rand.Rand, g EG, tier string) string {
	return "c09 " + c09Flags(g, tier) + " " + g.Tokens() + c09Order(r, g) + c09ColGroups(r, g)
}

// c09Classes calls f on one graph per isomorphism class on n vertices (the library's own generator is used only as
// a source of inputs: if it misbehaves the stream just loses coverage), each in a random labelling.
func c09Classes(r *rand.Rand, n int, f func(EG)) {
	defer func() { recover() }()
	it := search.All(n, 0, 1)
	for it.Next() {
		g := fromGraph(it.Value())
		f(g.Relabel(r.Perm(g.N)))
	}
}

func c09Gen(r *rand.Rand, tier string, emit func(string)) {
	// boundary: n = 0, 1, 2; then every labelled graph on <= 5 vertices
	for n := 0; n <= 5; n++ {
		for mask := uint64(0); mask < 1<<uint(n*(n-1)/2); mask++ {
			emit(c09Req(r, fromMask(n, mask), tier))
		}
	}
	// one graph per isomorphism class: n = 6, 7 with every affordable section; n = 8 (rare DSATUR failures first
	// appear there): all classes in the thorough tier, half of them with the cheap sections in the quick tier
	for n := 6; n <= 8; n++ {
		idx, pick := 0, r.Intn(2)
		c09Classes(r, n, func(g EG) {
			idx++
			if n == 8 && tier != "thorough" {
				if idx%2 != pick { // quick tier: every other class (the seed chooses which half)
					return
				}
				fl := "qQcCdD"
				if len(g.E) <= 9 {
					fl += "eE"
				}
				emit("c09 " + fl + " " + g.Tokens())
			} else {
				emit(c09Req(r, g, tier))
			}
		})
	}
	// wrong-length orders (GreedyColor must panic)
	emit("c09 g 3 2 0 1 1 2 0 1")
	emit("c09 g 3 2 0 1 1 2 0 1 2 0")
	emit("c09 g 0 0 0")
	cases, maxN := 1500, 8
	if tier == "thorough" {
		cases, maxN = 20000, 10
	}
	for i := 0; i < cases; i++ {
		g := genEG(r, maxN)
		if r.Intn(5) == 0 { // disconnected: add isolated vertices / a second component
			h := genEG(r, 3)
			if g.N+h.N <= maxN {
				u := EG{N: g.N + h.N, E: append([][2]int{}, g.E...)}
				for _, e := range h.E {
					u.E = append(u.E, [2]int{e[0] + g.N, e[1] + g.N})
				}
				g = u.norm()
				if r.Intn(2) == 0 {
					g = g.Relabel(r.Perm(g.N))
				}
			}
		}
		emit(c09Req(r, g, tier))
	}
	// larger graphs: only the sections that are cheap at any size on the Lean side
	big := 150
	if tier == "thorough" {
		big = 2000
	}
	for i := 0; i < big; i++ {
		g := genEG(r, 30)
		emit("c09 gi " + g.Tokens() + c09Order(r, g) + c09ColGroups(r, g))
	}
}

func c09GenW(r *rand.Rand, tier string, emit func(string)) {
	one := func(g EG) {
		ks := []int{}
		for k := 0; k <= g.N+1; k++ {
			if g.N <= 6 || r.Intn(g.N) < 4 {
				ks = append(ks, k)
			}
		}
		withEdge := len(g.E) <= 16
		w := c09Witnesses(g, ks, withEdge)
		emit("c09w " + g.Tokens() + " " + w.Tokens())
		// a corrupted copy: both checkers must agree on the verdict (never part of the oracle)
		if r.Intn(4) == 0 && g.N > 0 {
			x := w
			switch r.Intn(5) {
			case 0:
				if len(x.col) > 0 {
					x.col = append([]int{}, x.col...)
					if len(g.E) > 0 {
						e := g.E[r.Intn(len(g.E))]
						x.col[e[0]] = x.col[e[1]]
					} else {
						x.col[r.Intn(len(x.col))] = x.chi
					}
				}
			case 1:
				if x.hasE && len(x.ecol) > 0 {
					x.ecol = append([]int{}, x.ecol...)
					i := r.Intn(len(x.ecol))
					x.ecol[i] = (x.ecol[i] + 1) % (x.ci + 2)
				}
			case 2:
				if len(x.order) > 1 {
					x.order = append([]int{}, x.order...)
					i, j := r.Intn(len(x.order)), r.Intn(len(x.order))
					x.order[i], x.order[j] = x.order[j], x.order[i]
					if r.Intn(2) == 0 {
						x.d = x.d + r.Intn(3) - 1
						if x.d < 0 {
							x.d = 0
						}
					}
				}
			case 3:
				if len(x.mc) > 0 {
					x.mc = append([][]int{}, x.mc...)
					i := r.Intn(len(x.mc))
					if r.Intn(2) == 0 {
						x.mc = append(x.mc, x.mc[i])
					} else if len(x.mc[i]) > 1 {
						x.mc[i] = x.mc[i][1:]
					}
				}
			case 4:
				x.clq = append(append([]int{}, x.clq...), r.Intn(g.N))
				x.w++
			}
			emit("c09w " + g.Tokens() + " " + x.Tokens())
		}
	}
	for n := 0; n <= 3; n++ {
		for mask := uint64(0); mask < 1<<uint(n*(n-1)/2); mask++ {
			one(fromMask(n, mask))
		}
	}
	cases := 1000
	if tier == "thorough" {
		cases = 15000
	}
	for i := 0; i < cases; i++ {
		maxN := 9
		switch r.Intn(3) {
		case 1:
			maxN = 16
		case 2:
			maxN = 30
		}
		one(genEG(r, maxN))
	}
}

// ---------- c09L: large structured graphs, oracle only ----------
//
// c09L <chi> <ci|-1> <n m u v ...>: families with a chromatic number (and for stars a chromatic index) known by
// construction and vertices of degree around 256 and 512 whose neighbours largely share one colour (8-bit counter and
// byte boundaries). Reply "skip" on both sides; everything is decided by the oracle: ChromaticNumber returns chi with a
// proper colouring using exactly 0..chi-1; IsKColorable(k) for k = chi-1, chi, chi+1 is consistent with a proper
// colouring < k when true; ChromaticIndex (when ci >= 0) returns ci with a valid array.

func c09RunL(args []string) Result {
	chi, ci := atoi(args[0]), atoi(args[1])
	g, _ := parseEG(args[2:])
	oracle := ""
	fail := func(f string, a ...interface{}) {
		if oracle == "" {
			oracle = fmt.Sprintf(f, a...)
		}
	}
	tags := []string{"large", "nontrivial"}
	d := g.Dense()
	lim := 20 * time.Second
	slow := func(what, e string) bool {
		if e == "" {
			return false
		}
		if strings.HasPrefix(e, "did not terminate") {
			tags = append(tags, "slow-skipped")
		} else {
			fail("%s %s", what, e)
		}
		return true
	}
	var got int
	var col []int
	if !slow("ChromaticNumber", c09Try(lim, func() { got, col = graph.ChromaticNumber(d) })) {
		if got != chi {
			fail("ChromaticNumber=%d but the chromatic number is %d by construction", got, chi)
		} else if msg := c09ProperColouring(g, col); msg != "" {
			fail("ChromaticNumber=%d: %s", got, msg)
		} else if !c09UsesExactly(col, got) {
			fail("ChromaticNumber=%d but the colouring does not use exactly the colours 0..%d", got, got-1)
		}
	}
	for _, k := range []int{chi - 1, chi, chi + 1} {
		if k < 0 {
			continue
		}
		var ok bool
		var c []int
		kk := k
		if slow(fmt.Sprintf("IsKColorable(%d)", k), c09Try(lim, func() { ok, c = graph.IsKColorable(d, kk) })) {
			continue
		}
		if ok != (k >= chi) {
			fail("IsKColorable(%d)=%v but the chromatic number is %d by construction", k, ok, chi)
		} else if ok {
			if msg := c09ProperColouring(g, c); msg != "" {
				fail("IsKColorable(%d)=true: %s", k, msg)
			}
			for _, x := range c {
				if x >= k {
					fail("IsKColorable(%d)=true but the colouring uses colour %d", k, x)
					break
				}
			}
		} else if c != nil {
			fail("IsKColorable(%d)=false with a non-nil colouring", k)
		}
	}
	if ci >= 0 {
		var gci int
		var b []byte
		if !slow("ChromaticIndex", c09Try(lim, func() { gci, b = graph.ChromaticIndex(d) })) {
			if gci != ci {
				fail("ChromaticIndex=%d but the chromatic index is %d by construction", gci, ci)
			} else if msg := c09EdgeColouring(g, c09BytesToInts(b), gci); msg != "" {
				fail("ChromaticIndex=%d: %s", gci, msg)
			}
		}
		tags = append(tags, "large-ci")
	}
	return Result{Out: "skip", Oracle: oracle, Tags: tags}
}

func c09LReq(r *rand.Rand, chi, ci int, g EG, relabel bool) string {
	g = g.norm()
	if relabel {
		g = g.Relabel(r.Perm(g.N))
	}
	return fmt.Sprintf("c09L %d %d %s", chi, ci, g.Tokens())
}

func c09GenL(r *rand.Rand, tier string, emit func(string)) {
	both := func(chi, ci int, g EG) {
		emit(c09LReq(r, chi, ci, g, false))
		emit(c09LReq(r, chi, -1, g, true))
	}
	star := func(l int) EG {
		g := EG{N: l + 1}
		for v := 1; v <= l; v++ {
			g.E = append(g.E, [2]int{0, v})
		}
		return g
	}
	add := func(g *EG, u, v int) {
		if u > v {
			u, v = v, u
		}
		g.E = append(g.E, [2]int{u, v})
	}
	// stars (chromatic index = number of leaves; 255 must still fit a byte, 256 is the recorded finding -> corpus only)
	for _, l := range []int{254, 255} {
		both(2, l, star(l))
	}
	for _, l := range []int{256, 257, 258, 510, 511, 512, 513, 514} {
		both(2, -1, star(l))
	}
	sizes := []int{255, 256, 257, 511, 512, 513}
	for _, s := range sizes {
		// double star: two adjacent hubs with s leaves each
		g := EG{N: 2*s + 2}
		add(&g, 0, 1)
		for i := 0; i < s; i++ {
			add(&g, 0, 2+i)
			add(&g, 1, 2+s+i)
		}
		both(2, -1, g)
		// hub with s pendant vertices, and a triangle / a 5-cycle elsewhere
		for _, cyc := range []int{3, 5} {
			g = star(s)
			base := g.N
			g.N += cyc
			for i := 0; i < cyc; i++ {
				add(&g, base+i, base+(i+1)%cyc)
			}
			both(3, -1, g)
		}
		// hub + s spokes + one extra edge between two leaves
		g = star(s)
		add(&g, 1, 2)
		both(3, -1, g)
		// wheel with s rim vertices
		g = star(s)
		for i := 0; i < s; i++ {
			add(&g, 1+i, 1+(i+1)%s)
		}
		if s%2 == 0 {
			both(3, -1, g)
		} else {
			both(4, -1, g)
		}
		// complete bipartite K_{a,s}
		for _, a := range []int{2, 3} {
			g = EG{N: a + s}
			for u := 0; u < a; u++ {
				for v := a; v < a+s; v++ {
					add(&g, u, v)
				}
			}
			both(2, -1, g)
		}
		// "late hub", chromatic number 3: triangle k0 k1 k2, s spokes adjacent to k1, k2 and the hub, pendants on k0 —
		// DSATUR colours all spokes (same colour) before the hub
		g = EG{N: 4 + s + s + 3}
		add(&g, 0, 1)
		add(&g, 0, 2)
		add(&g, 1, 2)
		for i := 0; i < s; i++ {
			add(&g, 4+i, 1)
			add(&g, 4+i, 2)
			add(&g, 4+i, 3)
		}
		for i := 0; i < s+3; i++ {
			add(&g, 4+s+i, 0)
		}
		both(3, -1, g)
		emit(c09LReq(r, 3, -1, g, true))
		emit(c09LReq(r, 3, -1, g, true))
		// "late hub" tree, chromatic number 2: z with many pendants, y adjacent to z and to s spokes, every spoke
		// adjacent to the hub — the spokes all get colour 0 before the hub is coloured
		g = EG{N: 3 + s + s + 2}
		add(&g, 0, 1) // z - y
		for i := 0; i < s; i++ {
			add(&g, 1, 3+i) // y - spoke
			add(&g, 2, 3+i) // hub - spoke
		}
		for i := 0; i < s+2; i++ {
			add(&g, 0, 3+s+i) // pendants of z
		}
		both(2, -1, g)
	}
}

func init() {
	register(&Proto{Name: "c09L", Props: []string{"C09"}, Run: c09RunL, Gen: c09GenL, Timeout: 120 * time.Second})
	register(&Proto{Name: "c09", Props: []string{"C09"}, Run: c09Run, Gen: c09Gen, Timeout: 60 * time.Second})
	register(&Proto{Name: "c09w", Props: []string{"C09"}, Run: c09RunW, Gen: c09GenW, Timeout: 60 * time.Second})
}
