package main

import (
	"fmt"
	"math/rand"
	"sort"
	"strings"
	"time"

	"github.com/Tom-Johnston/mamba/graph"
)

// Protocols of C01 (canonical labelling is a complete isomorphism invariant)
//
//	canon  <n m u v ...> [; p0 p1 ... p(n-1)]*   reply: canonical graph "n=.. m=.. e=u-v ..." of g
//	canonx (same request)                        reply: "skip"  (unpruned tree too large for the model; oracle only)
//	canon2 <graph> ; <graph>                     reply: same=<bool> a=<canonical graph> b=<canonical graph>
//
// Oracle (independent of the Lean model): CanonicalIsomorph returns a permutation of 0..n-1; DenseGraph and SparseGraph
// give the identical canonical graph; the canonical graph of every listed relabelling p(g) is identical to that of g;
// canon2: canonical graphs are equal if and only if a backtracking search finds an isomorphism.

// ---------- model-independent helpers ----------

func c01IsPerm(p []int, n int) bool {
	if len(p) != n {
		return false
	}
	seen := make([]bool, n)
	for _, v := range p {
		if v < 0 || v >= n || seen[v] {
			return false
		}
		seen[v] = true
	}
	return true
}

// c01Canon runs the library on g in the chosen representation and returns the canonical graph.
func c01Canon(g EG, sparse bool) (EG, string) {
	var gg graph.EditableGraph
	if sparse {
		gg = g.Sparse()
	} else {
		gg = g.Dense()
	}
	p := graph.CanonicalIsomorph(gg)
	if !c01IsPerm(p, g.N) {
		return EG{}, fmt.Sprintf("CanonicalIsomorph returned %v, not a permutation of 0..%d", p, g.N-1)
	}
	return fromGraph(gg.InducedSubgraph(p)), ""
}

func c01SameEG(a, b EG) bool {
	if a.N != b.N || len(a.E) != len(b.E) {
		return false
	}
	for i := range a.E {
		if a.E[i] != b.E[i] {
			return false
		}
	}
	return true
}

// c01Invariants: vertex colours that every isomorphism a -> b must respect (class, degree, three rounds of
// neighbourhood-multiset refinement with a dictionary shared by both graphs).
func c01Invariants(a, b [][]bool, ca, cb []int) ([]int, []int) {
	n := len(a)
	col := [2][]int{make([]int, n), make([]int, n)}
	adj := [2][][]bool{a, b}
	cls := [2][]int{ca, cb}
	for s := 0; s < 2; s++ {
		for v := 0; v < n; v++ {
			d := 0
			for w := 0; w < n; w++ {
				if adj[s][v][w] {
					d++
				}
			}
			col[s][v] = d
			if cls[s] != nil {
				col[s][v] += (n + 1) * cls[s][v]
			}
		}
	}
	for round := 0; round < 3; round++ {
		dict := map[string]int{}
		var sigs [2][]string
		for s := 0; s < 2; s++ {
			sigs[s] = make([]string, n)
			for v := 0; v < n; v++ {
				var nc []int
				for w := 0; w < n; w++ {
					if adj[s][v][w] {
						nc = append(nc, col[s][w])
					}
				}
				sort.Ints(nc)
				sigs[s][v] = fmt.Sprint(col[s][v], nc)
			}
		}
		all := append(append([]string{}, sigs[0]...), sigs[1]...)
		sort.Strings(all)
		for _, k := range all {
			if _, ok := dict[k]; !ok {
				dict[k] = len(dict)
			}
		}
		for s := 0; s < 2; s++ {
			for v := 0; v < n; v++ {
				col[s][v] = dict[sigs[s][v]]
			}
		}
	}
	return col[0], col[1]
}

// c01IsoEnum enumerates all bijections f with a[u][v] == b[f u][f v] and ca[v] == cb[f v]; visit returns false to stop.
// Plain backtracking (vertices of a are assigned in an order in which each new vertex is constrained by as many earlier
// ones as possible; candidates are filtered by c01Invariants). Independent of the library and of the Lean model.
func c01IsoEnum(a, b [][]bool, ca, cb []int, visit func(f []int) bool) {
	n := len(a)
	if len(b) != n {
		return
	}
	ia, ib := c01Invariants(a, b, ca, cb)
	m := 0
	for i := 0; i < n; i++ {
		for j := 0; j < i; j++ {
			if a[i][j] {
				m++
			}
		}
	}
	dense := 4*m > n*(n-1)
	// assignment order
	order := make([]int, 0, n)
	placed := make([]bool, n)
	score := make([]int, n)
	for len(order) < n {
		best := -1
		for v := 0; v < n; v++ {
			if !placed[v] && (best < 0 || score[v] > score[best]) {
				best = v
			}
		}
		placed[best] = true
		order = append(order, best)
		for v := 0; v < n; v++ {
			if !placed[v] && v != best && a[best][v] != dense {
				score[v]++
			}
		}
	}
	f := make([]int, n)
	used := make([]bool, n)
	stop := false
	var rec func(k int)
	rec = func(k int) {
		if stop {
			return
		}
		if k == n {
			if !visit(f) {
				stop = true
			}
			return
		}
		v := order[k]
		for w := 0; w < n && !stop; w++ {
			if used[w] || ia[v] != ib[w] {
				continue
			}
			ok := true
			for _, u := range order[:k] {
				if a[u][v] != b[f[u]][w] {
					ok = false
					break
				}
			}
			if !ok {
				continue
			}
			used[w] = true
			f[v] = w
			rec(k + 1)
			used[w] = false
		}
	}
	rec(0)
}

func c01Isomorphic(g, h EG) bool {
	if g.N != h.N || len(g.E) != len(h.E) {
		return false
	}
	found := false
	c01IsoEnum(g.Adj(), h.Adj(), nil, nil, func([]int) bool { found = true; return false })
	return found
}

// ---------- budget: size of the unpruned search tree (same tree as the Lean model; used by Gen only) ----------

// c01Refine: colour refinement with the worklist discipline of the model. c is modified in place; returns cells.
func c01Refine(nb [][]int, c []int, cells int, work []int) int {
	n := len(c)
	keyv := make([]int, n)
	var rank []int
	seen := make([]bool, n+2)
	work = append([]int(nil), work...)
	nw := make([]int, 0, n+1)
	for len(work) > 0 {
		mi := 0
		for k := range work {
			if work[k] > work[mi] {
				mi = k
			}
		}
		i := work[mi]
		work = append(work[:mi], work[mi+1:]...)
		maxc := cells
		for _, x := range c {
			if x >= maxc {
				maxc = x + 1
			}
		}
		for _, x := range work {
			if x >= maxc {
				maxc = x + 1
			}
		}
		size := (maxc+1)*(n+1) + 1 // rank[k] = number of distinct keys < k
		if cap(rank) < size {
			rank = make([]int, size)
		} else {
			rank = rank[:size]
			for k := range rank {
				rank[k] = 0
			}
		}
		for v := 0; v < n; v++ {
			k := 0
			for _, w := range nb[v] {
				if c[w] == i {
					k++
				}
			}
			keyv[v] = c[v]*(n+1) + k
			rank[keyv[v]+1] = 1
		}
		for k := 1; k < len(rank); k++ {
			rank[k] += rank[k-1]
		}
		ncells := rank[len(rank)-1]
		for v := 0; v < n; v++ {
			c[v] = rank[keyv[v]]
		}
		first := func(x int) int { return rank[x*(n+1)] }
		for k := range seen {
			seen[k] = false
		}
		nw = nw[:0]
		add := func(x int) {
			if x < len(seen) && !seen[x] {
				seen[x] = true
				nw = append(nw, x)
			}
		}
		for _, x := range work {
			add(first(x))
		}
		for j := 0; j < cells; j++ {
			if fr := first(j+1) - first(j); fr > 1 {
				for t := 0; t < fr; t++ {
					add(first(j) + t)
				}
			}
		}
		work = append(work[:0], nw...)
		cells = ncells
	}
	return cells
}

// c01Leaves counts the leaves of the unpruned tree (stops early once the count exceeds limit).
func c01Leaves(g EG, classes [][]int, limit int) int {
	n := g.N
	if n == 0 {
		return 1
	}
	nb := make([][]int, n)
	for _, e := range g.E {
		nb[e[0]] = append(nb[e[0]], e[1])
		nb[e[1]] = append(nb[e[1]], e[0])
	}
	c := make([]int, n)
	cells := 1
	if classes != nil {
		cells = len(classes)
		for i, cl := range classes {
			for _, v := range cl {
				c[v] = i
			}
		}
	}
	work := make([]int, cells)
	for i := range work {
		work[i] = i
	}
	cells = c01Refine(nb, c, cells, work)
	count := 0
	var rec func(c []int, cells int)
	rec = func(c []int, cells int) {
		if count > limit {
			return
		}
		size := make([]int, cells)
		for _, x := range c {
			size[x]++
		}
		t := -1
		for x := 0; x < cells; x++ {
			if size[x] > 1 {
				t = x
				break
			}
		}
		if t < 0 {
			count++
			return
		}
		for v := 0; v < n; v++ {
			if c[v] != t {
				continue
			}
			d := make([]int, n)
			for u := 0; u < n; u++ {
				switch {
				case u == v:
					d[u] = t
				case c[u] > t:
					d[u] = c[u] + 1
				case c[u] == t:
					d[u] = t + 1
				default:
					d[u] = c[u]
				}
			}
			dc := c01Refine(nb, d, cells+1, []int{t, t + 1})
			rec(d, dc)
		}
	}
	rec(c, cells)
	return count
}

// ---------- graph families (built without the library) ----------

func c01FromAdj(n int, adj func(u, v int) bool) EG {
	g := EG{N: n}
	for v := 0; v < n; v++ {
		for u := 0; u < v; u++ {
			if adj(u, v) {
				g.E = append(g.E, [2]int{u, v})
			}
		}
	}
	return g
}

func c01Complement(g EG) EG {
	a := g.Adj()
	return c01FromAdj(g.N, func(u, v int) bool { return !a[u][v] })
}

func c01Union(g, h EG) EG {
	r := EG{N: g.N + h.N, E: append([][2]int{}, g.E...)}
	for _, e := range h.E {
		r.E = append(r.E, [2]int{e[0] + g.N, e[1] + g.N})
	}
	return r.norm()
}

func c01Circulant(n int, conn uint) EG {
	return c01FromAdj(n, func(u, v int) bool {
		d := v - u
		if d > n-d {
			d = n - d
		}
		return d >= 1 && conn>>(uint(d)-1)&1 == 1
	})
}

func c01Hypercube(d int) EG {
	return c01FromAdj(1<<uint(d), func(u, v int) bool { x := u ^ v; return x&(x-1) == 0 })
}

func c01Rook(a int) EG {
	return c01FromAdj(a*a, func(u, v int) bool { return u/a == v/a || u%a == v%a })
}

func c01Shrikhande() EG {
	return c01FromAdj(16, func(u, v int) bool {
		dx, dy := ((v/4-u/4)%4+4)%4, ((v%4-u%4)%4+4)%4
		switch [2]int{dx, dy} {
		case [2]int{1, 0}, [2]int{3, 0}, [2]int{0, 1}, [2]int{0, 3}, [2]int{1, 1}, [2]int{3, 3}:
			return true
		}
		return false
	})
}

func c01Paley(q int) EG {
	if q == 9 { // GF(9) = Z3[i], i*i = -1; elements a + 3*b  <->  a + b i
		sq := map[int]bool{}
		for x := 1; x < 9; x++ {
			a, b := x%3, x/3
			re, im := ((a*a-b*b)%3+3)%3, (2*a*b)%3
			sq[re+3*im] = true
		}
		return c01FromAdj(9, func(u, v int) bool {
			d := ((v%3-u%3)%3+3)%3 + 3*(((v/3-u/3)%3+3)%3)
			return sq[d]
		})
	}
	sq := map[int]bool{}
	for x := 1; x < q; x++ {
		sq[x*x%q] = true
	}
	return c01FromAdj(q, func(u, v int) bool { return sq[((v-u)%q+q)%q] })
}

func c01Kneser(n int) EG { // Kneser(n, 2)
	var pairs [][2]int
	for a := 0; a < n; a++ {
		for b := a + 1; b < n; b++ {
			pairs = append(pairs, [2]int{a, b})
		}
	}
	return c01FromAdj(len(pairs), func(u, v int) bool {
		p, q := pairs[u], pairs[v]
		return p[0] != q[0] && p[0] != q[1] && p[1] != q[0] && p[1] != q[1]
	})
}

func c01Multipartite(parts ...int) EG {
	var cls []int
	for i, p := range parts {
		for k := 0; k < p; k++ {
			cls = append(cls, i)
		}
	}
	return c01FromAdj(len(cls), func(u, v int) bool { return cls[u] != cls[v] })
}

func c01Cycles(m, k int) EG { // m disjoint copies of C_k
	return c01FromAdj(m*k, func(u, v int) bool {
		if u/k != v/k {
			return false
		}
		d := v%k - u%k
		if d < 0 {
			d = -d
		}
		return d == 1 || d == k-1
	})
}

// c01Graph6 decodes a graph6 string with n < 63 (own decoder, not the library's).
func c01Graph6(s string) EG {
	n := int(s[0]) - 63
	idx := 0
	return c01FromAdj(n, func(u, v int) bool {
		// called in the order (0,1) (0,2) (1,2) (0,3) ... which is the bit order of graph6
		b := s[1+idx/6] - 63
		bit := b>>(5-uint(idx%6))&1 == 1
		idx++
		return bit
	})
}

// c01ComponentUnion: a disjoint union of random small components (cycles, paths, stars, cliques, complete bipartite
// graphs, isolated vertices) with exactly n vertices.
func c01ComponentUnion(r *rand.Rand, n int) EG {
	g := EG{N: 0}
	for g.N < n {
		left := n - g.N
		var c EG
		switch r.Intn(6) {
		case 0:
			c = c01Cycles(1, 3+r.Intn(6))
		case 1: // path
			k := 2 + r.Intn(5)
			c = c01FromAdj(k, func(u, v int) bool { return v-u == 1 })
		case 2: // star
			c = c01Multipartite(1, 2+r.Intn(5))
		case 3:
			c = c01Multipartite([]int{1, 1, 1, 1, 1}[:3+r.Intn(3)]...)
		case 4:
			c = c01Multipartite(2+r.Intn(2), 2+r.Intn(3))
		default:
			c = EG{N: 1}
		}
		if c.N > left {
			c = EG{N: 1}
		}
		g = c01Union(g, c)
	}
	return g
}

// c01CycleUnion: cycles of pairwise different lengths plus one star, path or clique, n vertices in all. All the cycle
// vertices have the same degree but lie in different orbits, so after the first refinement there is a big cell whose
// vertices are not equivalent: skipping or repeating one of them changes the result.
func c01CycleUnion(r *rand.Rand, n int) EG {
	g := EG{N: 0}
	for _, l := range r.Perm(7) {
		k := l + 3
		if g.N+k <= n-2 || g.N+k == n {
			g = c01Union(g, c01Cycles(1, k))
		}
		if n-g.N < 5 {
			break
		}
	}
	if left := n - g.N; left > 0 {
		switch r.Intn(3) {
		case 0:
			if left >= 2 {
				g = c01Union(g, c01Multipartite(1, left-1))
			} else {
				g = c01Union(g, EG{N: left})
			}
		case 1:
			g = c01Union(g, c01FromAdj(left, func(u, v int) bool { return v-u == 1 }))
		default:
			g = c01Union(g, c01FromAdj(left, func(u, v int) bool { return true }))
		}
	}
	return g
}

type c01Named struct {
	name string
	g    EG
}

// c01Families: vertex-transitive / strongly regular / disconnected graphs up to n ~ 30.
func c01Families(thorough bool) []c01Named {
	out := []c01Named{
		{"petersen", c01Kneser(5)}, {"Q3", c01Hypercube(3)}, {"Q4", c01Hypercube(4)},
		{"rook3", c01Rook(3)}, {"rook4", c01Rook(4)}, {"shrikhande", c01Shrikhande()},
		{"paley9", c01Paley(9)}, {"paley13", c01Paley(13)}, {"paley17", c01Paley(17)}, {"paley29", c01Paley(29)},
		{"kneser6", c01Kneser(6)}, {"K222", c01Multipartite(2, 2, 2)}, {"K33", c01Multipartite(3, 3)},
		{"K123", c01Multipartite(1, 2, 3)}, {"K44", c01Multipartite(4, 4)}, {"K234", c01Multipartite(2, 3, 4)},
		{"2C4", c01Cycles(2, 4)}, {"2C5", c01Cycles(2, 5)}, {"3C3", c01Cycles(3, 3)}, {"3C4", c01Cycles(3, 4)}, {"2C7", c01Cycles(2, 7)},
		{"C12", c01Cycles(1, 12)}, {"C20", c01Cycles(1, 20)}, {"C30", c01Cycles(1, 30)},
		{"petersen+Q3", c01Union(c01Kneser(5), c01Hypercube(3))}, {"2petersen", c01Union(c01Kneser(5), c01Kneser(5))},
		{"2rook3", c01Union(c01Rook(3), c01Rook(3))}, {"paley9+rook3", c01Union(c01Paley(9), c01Rook(3))},
		{"shrikhande+rook4", c01Union(c01Shrikhande(), c01Rook(4))},
		{"K5", c01Multipartite(1, 1, 1, 1, 1)}, {"K6", c01Multipartite(1, 1, 1, 1, 1, 1)}, {"E5", EG{N: 5}}, {"E6", EG{N: 6}},
		{"K7", c01Multipartite(1, 1, 1, 1, 1, 1, 1)}, {"K10", c01FromAdj(10, func(u, v int) bool { return true })}, {"E9", EG{N: 9}},
		{"K12", c01FromAdj(12, func(u, v int) bool { return true })}, {"K66", c01Multipartite(6, 6)},
		{"Q5", c01Hypercube(5)}, {"rook5", c01Rook(5)}, {"kneser7", c01Kneser(7)}, {"K333", c01Multipartite(3, 3, 3)},
		{"4C4", c01Cycles(4, 4)}, {"5C3", c01Cycles(5, 3)}, {"3C5", c01Cycles(3, 5)}, {"2Q3", c01Union(c01Hypercube(3), c01Hypercube(3))},
		{"2Q4", c01Union(c01Hypercube(4), c01Hypercube(4))}, {"6K2", c01Cycles(6, 2)}, {"10K2", c01Cycles(10, 2)},
	}
	// unions of non-isomorphic regular graphs of the same degree and order: refinement cannot tell the components
	// apart, so the tree has several kinds of leaves and the best leaf is usually not the first one
	prism := func(k int) EG { // C_k x K_2
		return c01FromAdj(2*k, func(u, v int) bool {
			if u/k == v/k {
				d := v%k - u%k
				if d < 0 {
					d = -d
				}
				return d == 1 || d == k-1
			}
			return u%k == v%k
		})
	}
	moebius := func(n int) EG { return c01Circulant(n, 1|1<<uint(n/2-1)) } // C_n plus the antipodal chords
	k4x2 := c01Union(c01Multipartite(1, 1, 1, 1), c01Multipartite(1, 1, 1, 1))
	out = append(out,
		c01Named{"C6+2C3", c01Union(c01Cycles(1, 6), c01Cycles(2, 3))}, c01Named{"C8+2C4", c01Union(c01Cycles(1, 8), c01Cycles(2, 4))},
		c01Named{"C9+3C3", c01Union(c01Cycles(1, 9), c01Cycles(3, 3))}, c01Named{"C7+C3+C4", c01Union(c01Cycles(1, 7), c01Union(c01Cycles(1, 3), c01Cycles(1, 4)))},
		c01Named{"K33+prism3", c01Union(c01Multipartite(3, 3), prism(3))}, c01Named{"Q3+M8", c01Union(c01Hypercube(3), moebius(8))},
		c01Named{"Q3+2K4", c01Union(c01Hypercube(3), k4x2)}, c01Named{"M8+2K4", c01Union(moebius(8), k4x2)},
		c01Named{"petersen+prism5", c01Union(c01Kneser(5), prism(5))}, c01Named{"petersen+M10", c01Union(c01Kneser(5), moebius(10))},
		c01Named{"prism4+M8", c01Union(prism(4), moebius(8))}, c01Named{"C6+2C3+K33", c01Union(c01Union(c01Cycles(1, 6), c01Cycles(2, 3)), c01Multipartite(3, 3))},
		c01Named{"K33+prism3+K33", c01Union(c01Union(c01Multipartite(3, 3), prism(3)), c01Multipartite(3, 3))},
		c01Named{"C5+C4+C3", c01Union(c01Cycles(1, 5), c01Union(c01Cycles(1, 4), c01Cycles(1, 3)))},
		c01Named{"rook3+paley9", c01Union(c01Rook(3), c01Paley(9))},
		// two copies of a strongly regular graph: its complement is the most sensitive detector found for stale
		// best-leaf orbits (currentBestOrbits not reset on a new best leaf)
		c01Named{"2shrikhande", c01Union(c01Shrikhande(), c01Shrikhande())})
	if thorough {
		out = append(out, c01Named{"kneser8", c01Kneser(8)}, c01Named{"rook3+rook4+Q3", c01Union(c01Union(c01Rook(3), c01Rook(4)), c01Hypercube(3))},
			c01Named{"2paley13", c01Union(c01Paley(13), c01Paley(13))})
	}
	n := len(out)
	for i := 0; i < n; i++ {
		out = append(out, c01Named{"co-" + out[i].name, c01Complement(out[i].g)})
	}
	return out
}

// ---------- isomorphism classes, generated without the library ----------

// c01SmallCanon: exact canonical form of a graph with at most 11 vertices as a bit mask (own implementation:
// stable colour refinement, then the smallest adjacency bit string over all vertex orders that respect the colour
// cells, by branch and bound). Used only to enumerate isomorphism classes without the library.
func c01SmallCanon(g EG) uint64 {
	n := g.N
	a := g.Adj()
	col := make([]int, n)
	for v := 0; v < n; v++ {
		for w := 0; w < n; w++ {
			if a[v][w] {
				col[v]++
			}
		}
	}
	for round := 0; round < n; round++ {
		sig := make([]string, n)
		for v := 0; v < n; v++ {
			var nc []int
			for w := 0; w < n; w++ {
				if a[v][w] {
					nc = append(nc, col[w])
				}
			}
			sort.Ints(nc)
			b := make([]byte, 0, n+1)
			b = append(b, byte(col[v]))
			for _, x := range nc {
				b = append(b, byte(x))
			}
			sig[v] = string(b)
		}
		keys := append([]string(nil), sig...)
		sort.Strings(keys)
		idx := map[string]int{}
		for _, k := range keys {
			if _, ok := idx[k]; !ok {
				idx[k] = len(idx)
			}
		}
		changed := false
		for v := 0; v < n; v++ {
			if idx[sig[v]] != col[v] {
				changed = true
			}
			col[v] = idx[sig[v]]
		}
		if !changed {
			break
		}
	}
	best := ^uint64(0)
	order := make([]int, 0, n)
	used := make([]bool, n)
	var rec func(cur uint64, bits uint)
	rec = func(cur uint64, bits uint) {
		p := len(order)
		if p == n {
			if cur < best {
				best = cur
			}
			return
		}
		// next colour cell: smallest colour among unused vertices
		mc := -1
		for v := 0; v < n; v++ {
			if !used[v] && (mc < 0 || col[v] < mc) {
				mc = col[v]
			}
		}
		for v := 0; v < n; v++ {
			if used[v] || col[v] != mc {
				continue
			}
			nx := cur
			for q := 0; q < p; q++ {
				nx <<= 1
				if a[order[q]][v] {
					nx |= 1
				}
			}
			nb := bits + uint(p)
			total := uint(n * (n - 1) / 2)
			if best != ^uint64(0) && nx > best>>(total-nb) {
				continue
			}
			used[v] = true
			order = append(order, v)
			rec(nx, nb)
			order = order[:p]
			used[v] = false
		}
	}
	rec(0, 0)
	return best
}

var c01ClassCache = map[int][]EG{}

// c01Classes returns one representative of every isomorphism class on n vertices (n <= 9 is practical):
// every class on n vertices arises from a class on n-1 vertices by adding a vertex; duplicates are removed with the
// exact canonical form c01SmallCanon.
func c01Classes(n int) []EG {
	if r, ok := c01ClassCache[n]; ok {
		return r
	}
	var out []EG
	if n == 0 {
		out = []EG{{N: 0}}
	} else {
		seen := map[uint64]bool{}
		for _, g := range c01Classes(n - 1) {
			for mask := 0; mask < 1<<uint(n-1); mask++ {
				h := EG{N: n, E: append([][2]int{}, g.E...)}
				for u := 0; u < n-1; u++ {
					if mask>>uint(u)&1 == 1 {
						h.E = append(h.E, [2]int{u, n - 1})
					}
				}
				k := c01SmallCanon(h)
				if !seen[k] {
					seen[k] = true
					out = append(out, h)
				}
			}
		}
	}
	c01ClassCache[n] = out
	return out
}

// ---------- protocol ----------

func c01Perms(toks []string, n int) [][]int {
	var ps [][]int
	for _, grp := range splitTok(toks, ";") {
		if len(grp) == 0 {
			continue
		}
		ps = append(ps, atois(grp))
	}
	_ = n
	return ps
}

func c01RunCanon(args []string, skip bool) Result {
	g, rest := parseEG(args)
	ps := c01Perms(rest, g.N)
	oracle := ""
	fail := func(f string, a ...interface{}) {
		if oracle == "" {
			oracle = fmt.Sprintf(f, a...)
		}
	}
	cg, msg := c01Canon(g, false)
	if msg != "" {
		return Result{Out: "not-a-permutation", Oracle: msg}
	}
	if len(cg.E) != len(g.E) || !c01SameEG(cg, cg.norm()) {
		fail("canonical graph has %d edges, g has %d", len(cg.E), len(g.E))
	}
	cs, msg := c01Canon(g, true)
	if msg != "" {
		fail("SparseGraph: %s", msg)
	} else if !c01SameEG(cg, cs) {
		fail("DenseGraph and SparseGraph representations of the same graph have different canonical graphs: %s vs %s", showEG(cg), showEG(cs))
	}
	for i, p := range ps {
		if !c01IsPerm(p, g.N) {
			return Result{Out: "bad-op"}
		}
		h := g.Relabel(p)
		ch, msg := c01Canon(h, i%2 == 1)
		if msg != "" {
			fail("relabelling %v: %s", p, msg)
		} else if !c01SameEG(cg, ch) {
			fail("canonical graph changes under the relabelling %v: %s vs %s", p, showEG(cg), showEG(ch))
		}
	}
	tags := []string{fmt.Sprintf("n=%d", g.N)}
	if g.N >= 4 && len(g.E) > 0 && len(g.E) < g.N*(g.N-1)/2 {
		tags = append(tags, "nontrivial")
	}
	if skip {
		tags = append(tags, "model-skipped")
		return Result{Out: "skip", Oracle: oracle, Tags: tags}
	}
	return Result{Out: showEG(cg), Oracle: oracle, Tags: tags}
}

func c01RunCanon2(args []string) Result {
	parts := splitTok(args, ";")
	if len(parts) != 2 {
		return Result{Out: "bad-op"}
	}
	g, _ := parseEG(parts[0])
	h, _ := parseEG(parts[1])
	cg, m1 := c01Canon(g, false)
	ch, m2 := c01Canon(h, true)
	if m1 != "" || m2 != "" {
		return Result{Out: "not-a-permutation", Oracle: m1 + m2}
	}
	same := c01SameEG(cg, ch)
	iso := c01Isomorphic(g, h)
	oracle := ""
	if same != iso {
		oracle = fmt.Sprintf("canonical graphs equal = %v but isomorphic (backtracking search) = %v", same, iso)
	}
	tags := []string{"pair"}
	if iso {
		tags = append(tags, "pair-iso")
	} else {
		tags = append(tags, "pair-noniso")
	}
	if g.N >= 4 {
		tags = append(tags, "nontrivial")
	}
	return Result{Out: fmt.Sprintf("same=%v a=%s b=%s", same, showEG(cg), showEG(ch)), Oracle: oracle, Tags: tags}
}

func c01PermToks(p []int) string { return " ; " + joinInts(p) }

// c01LeafLimit: the model spends about n^3 steps per leaf; budget is in units of such steps.
func c01LeafLimit(n, budget int) int {
	if n < 2 {
		return budget
	}
	return budget / (n * n * n)
}

// c01Line builds a canon/canonx request for g with k random relabellings (g itself is relabelled first).
func c01Line(r *rand.Rand, g EG, k int, budget int) string {
	return c01LineBase(r, g.Relabel(r.Perm(g.N)), k, budget)
}

// c01LineBase: like c01Line but g keeps its labelling.
func c01LineBase(r *rand.Rand, g EG, k int, budget int) string {
	name := "canon"
	if lim := c01LeafLimit(g.N, budget); c01Leaves(g, nil, lim) > lim {
		name = "canonx"
	}
	var b strings.Builder
	b.WriteString(name + " " + g.Tokens())
	if g.N > 1 {
		for i := 0; i < k; i++ {
			b.WriteString(c01PermToks(r.Perm(g.N)))
		}
	}
	return b.String()
}

// c01Tweak: a graph close to g (one edge moved), usually not isomorphic but with the same number of edges.
func c01Tweak(r *rand.Rand, g EG) EG {
	n := g.N
	if n < 2 || len(g.E) == 0 || len(g.E) == n*(n-1)/2 {
		return g
	}
	a := g.Adj()
	e := g.E[r.Intn(len(g.E))]
	a[e[0]][e[1]], a[e[1]][e[0]] = false, false
	for {
		u, v := r.Intn(n), r.Intn(n)
		if u != v && !a[u][v] && !(u == e[0] && v == e[1]) && !(u == e[1] && v == e[0]) {
			a[u][v], a[v][u] = true, true
			break
		}
	}
	return c01FromAdj(n, func(u, v int) bool { return a[u][v] })
}

func c01Gen(r *rand.Rand, tier string, emit func(string)) {
	thorough := tier == "thorough"
	budget, reps, maxClass := 20000000, 10, 7
	if thorough {
		budget, reps, maxClass = 200000000, 25, 8
	}
	// boundary: all labelled graphs n <= 4
	for n := 0; n <= 4; n++ {
		for mask := uint64(0); mask < 1<<uint(n*(n-1)/2); mask++ {
			emit(c01Line(r, fromMask(n, mask), 3, budget))
		}
	}
	// the two smallest witnesses of the repaired Heuristic-2 defect, under fresh relabellings
	for _, w := range []string{"G|WW}K", "GhcqSK"} {
		g := c01Graph6(w)
		for i := 0; i < 4; i++ {
			emit(c01Line(r, g, 30, budget))
		}
	}
	// all isomorphism classes
	for n := 5; n <= maxClass; n++ {
		for _, g := range c01Classes(n) {
			emit(c01Line(r, g, reps, budget))
		}
	}
	if thorough { // n = 9: one-vertex extensions of the classes on 8 vertices (sample)
		cl := c01Classes(8)
		for i := 0; i < 20000; i++ {
			g := cl[r.Intn(len(cl))]
			h := EG{N: 9, E: append([][2]int{}, g.E...)}
			mask := r.Intn(256)
			for u := 0; u < 8; u++ {
				if mask>>uint(u)&1 == 1 {
					h.E = append(h.E, [2]int{u, 8})
				}
			}
			emit(c01Line(r, h, reps, budget))
		}
	}
	// random graphs n <= 10 (and larger sparse / dense ones: big cells, merge phase of the stable sort)
	nr := 600
	if thorough {
		nr = 6000
	}
	dens := []float64{0.15, 0.3, 0.5, 0.7, 0.85}
	for i := 0; i < nr; i++ {
		n := 5 + r.Intn(6)
		if i%6 == 0 {
			n = 21 + r.Intn(20)
		}
		emit(c01Line(r, randomEG(r, n, dens[r.Intn(len(dens))]), reps, budget))
	}
	// regular-ish random graphs: unions of random perfect matchings / cycles (large equitable cells)
	for i := 0; i < nr/4; i++ {
		n := 8 + 2*r.Intn(6)
		a := make([][]bool, n)
		for k := range a {
			a[k] = make([]bool, n)
		}
		for d := 0; d < 2+r.Intn(2); d++ {
			p := r.Perm(n)
			for k := 0; k < n; k++ {
				u, v := p[k], p[(k+1)%n]
				a[u][v], a[v][u] = true, true
			}
		}
		emit(c01Line(r, c01FromAdj(n, func(u, v int) bool { return a[u][v] }), reps, budget))
	}
	// big cells: (complements of) disjoint unions of small components with 21..40 vertices. The first refinement sorts
	// one cell of more than 20 vertices by neighbour counts with many ties (merge phase of the stable sort, one-element
	// blocks when n = 21 or 41), and the partition stays far from discrete.
	nb := 36
	if thorough {
		nb = 400
	}
	for i := 0; i < nb; i++ {
		var g EG
		switch i % 4 {
		case 0:
			g = c01ComponentUnion(r, 21+r.Intn(14))
		case 1:
			g = c01CycleUnion(r, 22+r.Intn(5))
		default: // n = 21: the merge step inserts a single element into a sorted block of 20
			g = c01CycleUnion(r, 21)
		}
		emit(c01Line(r, c01Complement(g), 8, budget/4)) // mostly there for the relabelling oracle
		if i%2 == 0 {
			emit(c01Line(r, g, 6, budget/4))
		}
	}
	// regular / near-regular random graphs with 21..32 vertices
	for i := 0; i < nb/2; i++ {
		n := 21 + r.Intn(12)
		a := make([][]bool, n)
		for k := range a {
			a[k] = make([]bool, n)
		}
		for d := 0; d < 1+r.Intn(3); d++ {
			p := r.Perm(n)
			for k := 0; k < n; k++ {
				u, v := p[k], p[(k+1)%n]
				a[u][v], a[v][u] = true, true
			}
		}
		g := c01FromAdj(n, func(u, v int) bool { return a[u][v] })
		if i%2 == 1 {
			g = c01Complement(g)
		}
		emit(c01Line(r, g, 6, budget))
	}
	// cells of 12..14 vertices split by counts (insertion sort block of the stable sort, threshold of sort.Slice)
	for i := 0; i < nb/2; i++ {
		g := c01ComponentUnion(r, 12+r.Intn(3))
		emit(c01Line(r, c01Complement(g), 8, budget))
	}
	// circulants, exhaustive
	maxCirc := 11
	if thorough {
		maxCirc = 13
	}
	for n := 5; n <= maxCirc; n++ {
		for conn := uint(0); conn < 1<<uint(n/2); conn++ {
			emit(c01Line(r, c01Circulant(n, conn), reps, budget))
		}
	}
	if !thorough {
		for i := 0; i < 30; i++ {
			n := 12 + r.Intn(2)
			emit(c01Line(r, c01Circulant(n, uint(r.Intn(1<<uint(n/2)))), reps, budget))
		}
	}
	// named families
	for _, f := range c01Families(thorough) {
		emit(c01Line(r, f.g, reps, budget))
		// the constructed labelling itself as the base graph: structured labellings reach corners of the search that
		// random ones rarely do
		emit(c01LineBase(r, f.g, reps, budget))
	}
	// pairs: isomorphic / nearly isomorphic
	np := 400
	if thorough {
		np = 4000
	}
	for i := 0; i < np; i++ {
		var g EG
		switch r.Intn(3) {
		case 0:
			n := r.Intn(8)
			cl := c01Classes(min(n, 7))
			g = cl[r.Intn(len(cl))]
		case 1:
			g = randomEG(r, 4+r.Intn(5), dens[r.Intn(len(dens))])
		default:
			g = c01Circulant(6+r.Intn(4), uint(1+r.Intn(15)))
		}
		g = g.Relabel(r.Perm(g.N))
		if lim := c01LeafLimit(g.N, budget/4); c01Leaves(g, nil, lim) > lim {
			continue
		}
		h := g
		if r.Intn(2) == 0 {
			h = c01Tweak(r, g)
		}
		h = h.Relabel(r.Perm(h.N))
		emit("canon2 " + g.Tokens() + " ; " + h.Tokens())
	}
}

func init() {
	// the search is exponential on some of the big-cell families: a generous limit (termination, not speed, is checked)
	register(&Proto{Name: "canon", Props: []string{"C01"}, Run: func(a []string) Result { return c01RunCanon(a, false) }, Gen: c01Gen, Timeout: 90 * time.Second})
	register(&Proto{Name: "canonx", Props: []string{}, Run: func(a []string) Result { return c01RunCanon(a, true) }, Gen: func(*rand.Rand, string, func(string)) {}, Timeout: 90 * time.Second})
	register(&Proto{Name: "canon2", Props: []string{}, Run: c01RunCanon2, Gen: func(*rand.Rand, string, func(string)) {}})
}
