//go:build !verif_nodawg

package main

import (
	"bytes"
	"encoding/hex"
	"fmt"
	"math/rand"
	"sort"
	"strings"
)

// ---- word sets ----

func c12SortUnique(ws [][]byte) [][]byte {
	sort.Slice(ws, func(i, j int) bool { return bytes.Compare(ws[i], ws[j]) < 0 })
	out := [][]byte{}
	for i, w := range ws {
		if i == 0 || !bytes.Equal(w, ws[i-1]) {
			out = append(out, w)
		}
	}
	return out
}

func c12RandWord(r *rand.Rand, alpha []byte, maxLen int) []byte {
	w := make([]byte, r.Intn(maxLen+1))
	for k := range w {
		w[k] = alpha[r.Intn(len(alpha))]
	}
	return w
}

func c12Alphabet(r *rand.Rand, n int, full bool) []byte {
	if full {
		p := r.Perm(256)
		a := make([]byte, n)
		for i := range a {
			a[i] = byte(p[i])
		}
		return a
	}
	a := make([]byte, n)
	for i := range a {
		a[i] = byte('a' + i)
	}
	return a
}

// c12RandSet: kind 0 = random words; 1 = prefixes x suffixes (heavy suffix sharing); 2 = chain of prefixes of one word
// plus noise (words that are prefixes of other words); 3 = all words of one length minus a few (dense)
func c12RandSet(r *rand.Rand, alpha []byte, kind int) [][]byte {
	var ws [][]byte
	switch kind {
	case 0:
		n := r.Intn(30)
		ml := 1 + r.Intn(6)
		for i := 0; i < n; i++ {
			ws = append(ws, c12RandWord(r, alpha, ml))
		}
	case 1:
		var pre, suf [][]byte
		for i := 0; i < 1+r.Intn(5); i++ {
			pre = append(pre, c12RandWord(r, alpha, 3))
		}
		for i := 0; i < 1+r.Intn(5); i++ {
			suf = append(suf, c12RandWord(r, alpha, 3))
		}
		for _, p := range pre {
			for _, s := range suf {
				if r.Intn(8) != 0 {
					ws = append(ws, append(append([]byte{}, p...), s...))
				}
			}
		}
	case 2:
		w := c12RandWord(r, alpha, 8)
		for l := 0; l <= len(w); l++ {
			if r.Intn(3) != 0 {
				ws = append(ws, append([]byte{}, w[:l]...))
			}
		}
		for i := 0; i < r.Intn(6); i++ {
			ws = append(ws, c12RandWord(r, alpha, 5))
		}
	case 3:
		l := 1 + r.Intn(3)
		if len(alpha) > 4 {
			l = 1 + r.Intn(2)
		}
		var rec func(cur []byte)
		rec = func(cur []byte) {
			if len(cur) == l {
				if r.Intn(10) != 0 {
					ws = append(ws, append([]byte{}, cur...))
				}
				return
			}
			for _, c := range alpha {
				rec(append(cur, c))
			}
		}
		rec(nil)
	}
	return c12SortUnique(ws)
}

// c12Disorder inserts adds that must be rejected (duplicates, smaller words, nil / empty) at random positions.
func c12Disorder(r *rand.Rand, ws [][]byte, alpha []byte) [][]byte {
	out := [][]byte{}
	extra := func(i int) {
		switch r.Intn(5) {
		case 0: // duplicate of the previous accepted word
			if i > 0 {
				out = append(out, ws[i-1])
			}
		case 1: // some earlier word
			if i > 0 {
				out = append(out, ws[r.Intn(i)])
			}
		case 2: // nil
			out = append(out, nil)
		case 3: // empty non-nil
			out = append(out, []byte{})
		case 4: // a proper prefix of the previous word, or a random word (may or may not be in order)
			if i > 0 && len(ws[i-1]) > 0 && r.Intn(2) == 0 {
				out = append(out, ws[i-1][:r.Intn(len(ws[i-1]))])
			} else {
				out = append(out, c12RandWord(r, alpha, 4))
			}
		}
	}
	for i := 0; i <= len(ws); i++ {
		for r.Intn(4) == 0 {
			extra(i)
		}
		if i < len(ws) {
			out = append(out, ws[i])
		}
	}
	return out
}

func c12Line(proto string, adds, probes [][]byte) string {
	var b strings.Builder
	b.WriteString(proto)
	for _, w := range adds {
		if w == nil {
			b.WriteString(" n")
		} else {
			b.WriteString(" a" + hex.EncodeToString(w))
		}
	}
	b.WriteString(" |")
	for _, p := range probes {
		b.WriteString(" p" + hex.EncodeToString(p))
	}
	return b.String()
}

func c12Bytes(ss ...string) [][]byte {
	out := [][]byte{}
	for _, s := range ss {
		out = append(out, []byte(s))
	}
	return out
}

// c14Wide: sets over the full byte alphabet with a node of m children and/or word / node counts around 127/128.
func c14Wide(r *rand.Rand, m int, second int) [][]byte {
	p := r.Perm(256)[:m]
	var ws [][]byte
	for _, c := range p {
		ws = append(ws, []byte{byte(c)})
	}
	for i := 0; i < second; i++ {
		ws = append(ws, []byte{byte(p[r.Intn(m)]), byte(r.Intn(256))})
	}
	return c12SortUnique(ws)
}

// c14Many: n distinct words with little sharing (many nodes).
func c14Many(r *rand.Rand, n int, alpha []byte, l int) [][]byte {
	var ws [][]byte
	for len(c12SortUnique(ws)) < n {
		w := make([]byte, 1+r.Intn(l))
		for k := range w {
			w[k] = alpha[r.Intn(len(alpha))]
		}
		ws = append(ws, w)
	}
	return c12SortUnique(ws)
}

func c12GenCases(r *rand.Rand, tier string, proto string, emit func(string)) {
	// boundary cases
	ab := []byte("ab")
	emit(c12Line(proto, nil, c12Bytes("", "a")))
	emit(c12Line(proto, [][]byte{{}}, c12Bytes("", "a")))
	emit(c12Line(proto, [][]byte{nil}, c12Bytes("", "a")))
	emit(c12Line(proto, [][]byte{nil, nil}, c12Bytes("")))
	emit(c12Line(proto, [][]byte{{}, nil, {}, []byte("a"), nil}, c12Bytes("", "a")))
	emit(c12Line(proto, [][]byte{nil, {}, []byte("a"), []byte("a"), {}}, c12Bytes("", "a", "aa")))
	emit(c12Line(proto, c12Bytes("a"), c12Bytes("", "a", "b", "aa")))
	emit(c12Line(proto, c12Bytes("b", "a", "b", "c", "bb"), c12Bytes("", "a", "b", "c", "bb")))
	emit(c12Line(proto, c12Bytes("a", "ab", "abc", "abd", "b", "bc", "bd"), c12Bytes("", "a", "ab", "abc", "abd", "b", "bc", "bd", "c")))
	emit(c12Line(proto, c12Bytes("abject", "abjection", "abjections", "abjectly", "abjectness", "ablate", "ablated", "ablation", "ablations"),
		c12Bytes("ab", "", "hello", "abject", "ablations")))
	emit(c12Line(proto, c12Bytes("ab", "abc", "b", "bc"), c12Bytes("ab", "abc", "b", "bc", "c")))
	emit(c12Line(proto, c12Bytes("ac", "bc", "bd"), c12Bytes("ac", "bc", "bd", "ad")))
	cases := 4000
	if tier == "thorough" {
		cases = 80000
	}
	for c := 0; c < cases; c++ {
		var alpha []byte
		switch r.Intn(6) {
		case 0:
			alpha = c12Alphabet(r, 1, false)
		case 1, 2:
			alpha = c12Alphabet(r, 2, false)
		case 3:
			alpha = c12Alphabet(r, 3+r.Intn(2), false)
		case 4:
			alpha = c12Alphabet(r, 2+r.Intn(3), true)
		case 5:
			alpha = c12Alphabet(r, 5+r.Intn(20), true)
		}
		ws := c12RandSet(r, alpha, r.Intn(4))
		if r.Intn(5) == 0 && (len(ws) == 0 || len(ws[0]) > 0) {
			ws = append([][]byte{{}}, ws...)
		}
		adds := ws
		if r.Intn(5) < 2 {
			adds = c12Disorder(r, ws, alpha)
		}
		emit(c12Line(proto, adds, c12Probes(r, ws, alpha, 2+r.Intn(8))))
	}
	// wide branching and counts around the one-byte boundary of the integer encoding
	wide := []int{126, 127, 128, 129, 130, 200, 255, 256}
	reps := 1
	if tier == "thorough" {
		reps = 6
	}
	for k := 0; k < reps; k++ {
		for _, m := range wide {
			ws := c14Wide(r, m, []int{0, 3, 40}[r.Intn(3)])
			emit(c12Line(proto, ws, c12Probes(r, ws, c12Alphabet(r, 256, true), 6)))
		}
		for _, n := range []int{127, 128, 129, 300} {
			ws := c14Many(r, n, ab, 10)
			emit(c12Line(proto, ws, c12Probes(r, ws, ab, 6)))
			ws = c14Many(r, n/3, c12Alphabet(r, 7, true), 7)
			emit(c12Line(proto, ws, c12Probes(r, ws, ab, 6)))
		}
		_ = k
	}
	emit(c12Line(proto, append([][]byte{{}}, c14Wide(r, 256, 0)...), c12Bytes("", "a", "\x00", "\xff", "ab")))
	c12GenSignature(r, tier, proto, emit)
}


// ---- signature-adversarial family ----
//
// Word sets aimed at registers keyed by a rendered node signature (string / hash keys, separators, decimal ids):
// alphabets of ASCII digits and typical separator bytes, 30–300 words of length 3–8 with dense suffix sharing, so that
// node ids reach two and three decimal digits while the labels are themselves digits / separators.

var c12SigSeparators = []byte{',', ':', ';', '|', ' ', '-', '/', '#', 0x00, 0x01, '.', '!'}

// c12SigAlphabet: 2–3 digits (most of the time '1','2'), sometimes all ten digits, sometimes digits plus separators.
func c12SigAlphabet(r *rand.Rand) []byte {
	switch r.Intn(8) {
	case 0, 1, 2:
		return []byte("12")
	case 3:
		d := r.Perm(10)
		return []byte{byte('0' + d[0]), byte('0' + d[1])}
	case 4:
		d := r.Perm(10)
		return []byte{byte('0' + d[0]), byte('0' + d[1]), byte('0' + d[2])}
	case 5:
		return []byte("0123456789")
	case 6:
		d := r.Perm(10)
		return []byte{byte('0' + d[0]), byte('0' + d[1]), c12SigSeparators[r.Intn(len(c12SigSeparators))]}
	default:
		a := []byte{'1', '2', c12SigSeparators[r.Intn(len(c12SigSeparators))], c12SigSeparators[r.Intn(len(c12SigSeparators))]}
		return a
	}
}

// c12SigSet: kind 0 = the words of length <= L of a random automaton over the alphabet (regular-ish language, dense
// sharing), thinned to the wanted size; 1 = random subset of alphabet^{3..L}; 2 = decimal renderings of small numbers and
// concatenations of two of them; 3 = a few random stems times the words of a small random language (shared suffix trees
// below many different prefixes).
func c12SigSet(r *rand.Rand, alpha []byte, kind int) [][]byte {
	want := 30 + r.Intn(120)
	if r.Intn(4) == 0 {
		want = 150 + r.Intn(150)
	}
	L := 5 + r.Intn(4)
	var ws [][]byte
	randomLanguage := func(maxLen, cap int) [][]byte {
		k := 3 + r.Intn(5)
		next := make([][]int, k)
		final := make([]bool, k)
		for q := range next {
			next[q] = make([]int, len(alpha))
			for a := range alpha {
				next[q][a] = r.Intn(k + 1) // k = dead
			}
			final[q] = r.Intn(3) != 0
		}
		var out [][]byte
		var rec func(q int, cur []byte)
		rec = func(q int, cur []byte) {
			if len(out) >= cap {
				return
			}
			if final[q] && len(cur) >= 1 {
				out = append(out, append([]byte{}, cur...))
			}
			if len(cur) == maxLen {
				return
			}
			for a, c := range alpha {
				if next[q][a] < k {
					rec(next[q][a], append(cur, c))
				}
			}
		}
		rec(0, nil)
		return out
	}
	switch kind {
	case 0:
		ws = randomLanguage(L, 4000)
	case 1:
		for i := 0; i < want*2; i++ {
			w := make([]byte, 3+r.Intn(L-2))
			for k := range w {
				w[k] = alpha[r.Intn(len(alpha))]
			}
			ws = append(ws, w)
		}
	case 2:
		m := 20 + r.Intn(400)
		for i := 0; i < want; i++ {
			w := []byte(fmt.Sprint(r.Intn(m)))
			if r.Intn(2) == 0 {
				w = append(w, []byte(fmt.Sprint(r.Intn(m)))...)
			}
			if r.Intn(4) == 0 {
				w = append(w, c12SigSeparators[r.Intn(len(c12SigSeparators))])
				w = append(w, []byte(fmt.Sprint(r.Intn(m)))...)
			}
			ws = append(ws, w)
		}
	case 3:
		tails := randomLanguage(2+r.Intn(3), 60)
		for i := 0; i < 4+r.Intn(12); i++ {
			stem := make([]byte, 1+r.Intn(4))
			for k := range stem {
				stem[k] = alpha[r.Intn(len(alpha))]
			}
			for _, t := range tails {
				if r.Intn(6) != 0 {
					ws = append(ws, append(append([]byte{}, stem...), t...))
				}
			}
		}
	}
	ws = c12SortUnique(ws)
	// thin to the wanted size (keeping the order)
	for len(ws) > want {
		drop := r.Perm(len(ws))[:len(ws)-want]
		sort.Ints(drop)
		kept := ws[:0:0]
		di := 0
		for i, w := range ws {
			if di < len(drop) && drop[di] == i {
				di++
				continue
			}
			kept = append(kept, w)
		}
		ws = kept
	}
	return ws
}

// c12SigDense: every word over alpha with length in lo..hi, each kept with probability p (dense sharing of suffixes,
// node ids quickly reach two and three digits; measured best against a register keyed by "label + decimal child id").
func c12SigDense(r *rand.Rand, alpha []byte, lo, hi int, p float64) [][]byte {
	var ws [][]byte
	var rec func(cur []byte)
	rec = func(cur []byte) {
		if len(cur) >= lo && r.Float64() < p {
			ws = append(ws, append([]byte{}, cur...))
		}
		if len(cur) == hi {
			return
		}
		for _, c := range alpha {
			rec(append(cur, c))
		}
	}
	rec(nil)
	return c12SortUnique(ws)
}

func c12GenSignature(r *rand.Rand, tier string, proto string, emit func(string)) {
	n := 3000
	if tier == "thorough" {
		n = 20000
	}
	if proto == "gob" {
		n /= 4
	}
	for i := 0; i < n; i++ {
		var alpha []byte
		var ws [][]byte
		switch k := r.Intn(20); {
		case k < 12: // dense subsets over {1,2}
			alpha = []byte("12")
			ws = c12SigDense(r, alpha, 3+r.Intn(4), 7+r.Intn(2), 0.3+0.4*r.Float64())
		case k < 14: // dense subsets over another pair / triple of digits, or a digit pair plus a separator
			alpha = c12SigAlphabet(r)
			hi := 7
			if len(alpha) == 3 {
				hi = 5
			} else if len(alpha) > 3 {
				hi = 3
				alpha = alpha[:4]
			}
			ws = c12SigDense(r, alpha, 1+r.Intn(3), hi, 0.3+0.4*r.Float64())
		case k < 17: // long random words over {1,2}
			alpha = []byte("12")
			m := 60 + r.Intn(240)
			for j := 0; j < m; j++ {
				w := make([]byte, 5+r.Intn(6))
				for t := range w {
					w[t] = alpha[r.Intn(2)]
				}
				ws = append(ws, w)
			}
			ws = c12SortUnique(ws)
		default: // regular-ish languages, stems x tails, decimal numbers over assorted digit / separator alphabets
			alpha = c12SigAlphabet(r)
			ws = c12SigSet(r, alpha, r.Intn(4))
		}
		emit(c12Line(proto, ws, c12Probes(r, ws, alpha, 6)))
	}
}

func c12GenDawg(r *rand.Rand, tier string, emit func(string)) { c12GenCases(r, tier, "dawg", emit) }
func c14GenGob(r *rand.Rand, tier string, emit func(string))  { c12GenCases(r, tier, "gob", emit) }

// ---- an independent minimal automaton and encoder for the raw-decode stream ----

type c14Node struct {
	final    bool
	labels   []byte
	kids     []*c14Node
	numWords int
}

type c14Trie struct {
	final bool
	kids  map[byte]*c14Trie
}

// c14MinDawg: trie + bottom-up merging of nodes with equal (final, labelled children) signature.
func c14MinDawg(ws [][]byte) *c14Node {
	root := &c14Trie{kids: map[byte]*c14Trie{}}
	for _, w := range ws {
		t := root
		for _, c := range w {
			if t.kids[c] == nil {
				t.kids[c] = &c14Trie{kids: map[byte]*c14Trie{}}
			}
			t = t.kids[c]
		}
		t.final = true
	}
	reg := map[string]*c14Node{}
	var canon func(t *c14Trie) *c14Node
	canon = func(t *c14Trie) *c14Node {
		n := &c14Node{final: t.final}
		if t.final {
			n.numWords = 1
		}
		var ls []int
		for c := range t.kids {
			ls = append(ls, int(c))
		}
		sort.Ints(ls)
		sig := fmt.Sprintf("%v", t.final)
		for _, c := range ls {
			k := canon(t.kids[byte(c)])
			n.labels = append(n.labels, byte(c))
			n.kids = append(n.kids, k)
			n.numWords += k.numWords
			sig += fmt.Sprintf("|%d:%p", c, k)
		}
		if m, ok := reg[sig]; ok {
			return m
		}
		reg[sig] = n
		return n
	}
	return canon(root)
}

// c14Encode writes the documented format for the automaton below root with the given ids (by first-visit order):
// node count, sorted ids, then one record per node in first-visit order.
func c14Encode(root *c14Node, idOf func(pos int) uint64) []byte {
	var order []*c14Node
	pos := map[*c14Node]int{}
	var visit func(n *c14Node)
	visit = func(n *c14Node) {
		if _, ok := pos[n]; ok {
			return
		}
		pos[n] = len(order)
		order = append(order, n)
		for _, k := range n.kids {
			visit(k)
		}
	}
	visit(root)
	ids := make([]uint64, len(order))
	for i := range order {
		ids[i] = idOf(i)
	}
	sorted := append([]uint64{}, ids...)
	sort.Slice(sorted, func(i, j int) bool { return sorted[i] < sorted[j] })
	conv := func(id uint64) uint64 {
		return uint64(sort.Search(len(sorted), func(i int) bool { return sorted[i] >= id }))
	}
	var b []byte
	b = append(b, c14Varint(uint64(len(order)))...)
	for _, id := range sorted {
		b = append(b, c14Varint(id)...)
	}
	for i, n := range order {
		b = append(b, c14Varint(conv(ids[i]))...)
		b = append(b, c14Varint(uint64(n.numWords))...)
		if n.final {
			b = append(b, 1)
		} else {
			b = append(b, 0)
		}
		b = append(b, c14Varint(uint64(len(n.labels)))...)
		for k, l := range n.labels {
			b = append(b, l)
			b = append(b, c14Varint(conv(ids[pos[n.kids[k]]]))...)
		}
	}
	return b
}

func c14CountNodes(root *c14Node) int {
	seen := map[*c14Node]bool{}
	var visit func(n *c14Node)
	visit = func(n *c14Node) {
		if seen[n] {
			return
		}
		seen[n] = true
		for _, k := range n.kids {
			visit(k)
		}
	}
	visit(root)
	return len(seen)
}

// c14RandIDs: distinct ids for n nodes, the root (position 0) getting the smallest; magnitudes spread over all
// byte lengths of the integer encoding.
func c14RandIDs(r *rand.Rand, n int) func(int) uint64 {
	set := map[uint64]bool{}
	var ids []uint64
	for len(ids) < n {
		var x uint64
		switch r.Intn(4) {
		case 0:
			x = uint64(r.Intn(300))
		case 1:
			x = r.Uint64() >> uint(8*r.Intn(8))
		case 2:
			x = uint64(1)<<uint(8*(1+r.Intn(7))) + uint64(r.Intn(3)) - 1
		case 3:
			x = ^uint64(0) - uint64(r.Intn(5))
		}
		if !set[x] {
			set[x] = true
			ids = append(ids, x)
		}
	}
	mi := 0
	for i := range ids {
		if ids[i] < ids[mi] {
			mi = i
		}
	}
	ids[0], ids[mi] = ids[mi], ids[0]
	return func(p int) uint64 { return ids[p] }
}

func c14Hex(b []byte) string {
	if len(b) == 0 {
		return "-"
	}
	return hex.EncodeToString(b)
}

func c14GenGobDec(r *rand.Rand, tier string, emit func(string)) {
	// hand-made
	emit("gobdec -")
	emit("gobdec 00")                   // zero nodes: ts[0] out of range
	emit("gobdec 01")                   // header only
	emit("gobdec 0100")                 // no record
	emit("gobdec 010000000000 r")       // the empty automaton
	emit("gobdec 010000010100 r")       // {""}
	emit("gobdec 010001000000")         // record index 1 of 1 nodes: out of range
	emit("gobdec 01000001000161" + "01") // target 1 of 1 nodes: out of range
	emit("gobdec 0100000100016100")     // self loop
	emit("gobdec 89010203040506070809") // over-long integer
	emit("gobdec 8901")
	emit("gobdec 8100")
	emit("gobdec 020005" + "0001000161" + "01" + "01010100 r") // ids 0,5: {"a"}
	emit("gobdec 020005" + "0101010100" + "0001000161" + "01")   // records in another order
	emit("gobdec 02000500010000")                                // second record missing
	sets := 150
	if tier == "thorough" {
		sets = 4000
	}
	for c := 0; c < sets; c++ {
		var alpha []byte
		if r.Intn(3) == 0 {
			alpha = c12Alphabet(r, 2+r.Intn(6), true)
		} else {
			alpha = c12Alphabet(r, 1+r.Intn(3), false)
		}
		ws := c12RandSet(r, alpha, r.Intn(4))
		if c%10 == 0 {
			ws = c14Wide(r, []int{127, 128, 129, 200, 256}[r.Intn(5)], r.Intn(10))
		}
		root := c14MinDawg(ws)
		n := c14CountNodes(root)
		// canonical ids 0..n-1 in first-visit order, then random ids
		plain := c14Encode(root, func(p int) uint64 { return uint64(p) })
		emit("gobdec " + c14Hex(plain) + " r")
		big := c14Encode(root, c14RandIDs(r, n))
		emit("gobdec " + c14Hex(big) + " r")
		if len(plain) <= 40 {
			// every truncation
			for l := 0; l < len(plain); l++ {
				emit("gobdec " + c14Hex(plain[:l]))
			}
		} else {
			for k := 0; k < 4; k++ {
				emit("gobdec " + c14Hex(big[:r.Intn(len(big))]))
			}
		}
		// small-value mutations, only of encodings without any byte >= 128 (so that, whatever the misalignment, every
		// count the real decoder reads stays <= 127 and it never tries to allocate gigabytes)
		allSmall := true
		for _, x := range plain {
			if x >= 128 {
				allSmall = false
			}
		}
		for k := 0; k < 6 && allSmall; k++ {
			m := append([]byte{}, plain...)
			for t := 0; t <= r.Intn(2); t++ {
				lim := n + 3
				if lim > 128 {
					lim = 128 // never write a length-prefix byte: a huge count would make the real decoder allocate
				}
				m[r.Intn(len(m))] = byte(r.Intn(lim))
			}
			emit("gobdec " + c14Hex(m))
		}
	}
}

func c14GenVarint(r *rand.Rand, tier string, emit func(string)) {
	var xs []uint64
	xs = append(xs, 0, 1, 2, 126, 127, 128, 129, 254, 255, 256, 257, 1<<63-1, 1<<63, 1<<63+1, ^uint64(0)-1, ^uint64(0))
	for k := uint(1); k < 8; k++ {
		xs = append(xs, 1<<(8*k)-1, 1<<(8*k), 1<<(8*k)+1, 1<<(8*k+7), 1<<(8*k+7)-1)
	}
	n := 300
	if tier == "thorough" {
		n = 5000
	}
	for i := 0; i < n; i++ {
		xs = append(xs, r.Uint64()>>uint(r.Intn(64)))
	}
	for _, x := range xs {
		emit(fmt.Sprintf("varint e %d", x))
		b := c14Varint(x)
		emit("varint d " + c14Hex(b))
		emit("varint d " + c14Hex(append(append([]byte{}, b...), byte(r.Intn(256)), 7)))
		emit("varint d " + c14Hex(b[:r.Intn(len(b))]))
	}
	// non-canonical and invalid first bytes
	emit("varint d -")
	emit("varint d 80")
	emit("varint d 8000")
	emit("varint d 8105")
	emit("varint d 820001")
	emit("varint d 88000000000000007f")
	emit("varint d 89000000000000000001")
	emit("varint d ff")
	for i := 0; i < n; i++ {
		b := make([]byte, 1+r.Intn(10))
		r.Read(b)
		if r.Intn(2) == 0 {
			b[0] = byte(128 + r.Intn(10))
		}
		emit("varint d " + c14Hex(b))
	}
}
