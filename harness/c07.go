package main

import (
	"encoding/hex"
	"fmt"
	"math/rand"
	"sort"
	"strconv"
	"strings"

	"github.com/Tom-Johnston/mamba/graph"
)

// Protocols of C07 (graphs are "n m u1 v1 ... um vm"; byte strings are hex, "-" = empty):
//
//	g6 <graph>            hex=<Graph6Encode> dec=<Graph6Decode(enc)> hdr=<Graph6Decode(">>graph6<<"+enc)>  ("same" if equal)
//	s6 <graph>            the same for sparse6
//	mc <graph>            hex=<MulticodeEncode> dec=<MulticodeDecode(enc)>
//	mcm <k> <graph>^k     hex=<concatenation> dec=<G1>;<G2>;... (MulticodeDecodeMultiple)
//	pe <tree>             code=[PruferEncode] tree=<PruferDecode(code)>
//	pd <k> c1..ck         tree=<PruferDecode(code)> code=[PruferEncode(tree)]
//
// Oracles (independent of the Lean model): round trip by adjacency, bytes in the allowed range, the harness's own
// transcription of formats.txt (c07spec*) applied to the implementation's strings (graph6: the string must be *the*
// string; sparse6: a conforming reader must read exactly the edges of g, no loop, no repetition), decoded graphs
// well formed (M, Degrees, Neighbours, IsEdge agree), Pruefer both compositions and tree-ness.

// ---------- plain graphs that scale to n = 258048 ----------

type c07G struct {
	n int
	e [][2]int // u < v, sorted by (v, u), distinct
}

func c07norm(n int, es [][2]int) c07G {
	out := make([][2]int, 0, len(es))
	for _, e := range es {
		u, v := e[0], e[1]
		if u > v {
			u, v = v, u
		}
		if u != v && u >= 0 && v < n {
			out = append(out, [2]int{u, v})
		}
	}
	sort.Slice(out, func(a, b int) bool {
		if out[a][1] != out[b][1] {
			return out[a][1] < out[b][1]
		}
		return out[a][0] < out[b][0]
	})
	k := 0
	for i, e := range out {
		if i == 0 || e != out[i-1] {
			out[k] = e
			k++
		}
	}
	return c07G{n, out[:k]}
}

func c07parse(toks []string) (c07G, []string) {
	n, m := atoi(toks[0]), atoi(toks[1])
	es := make([][2]int, m)
	for i := 0; i < m; i++ {
		es[i] = [2]int{atoi(toks[2+2*i]), atoi(toks[3+2*i])}
	}
	return c07norm(n, es), toks[2+2*m:]
}

func (g c07G) tokens() string {
	var b strings.Builder
	fmt.Fprintf(&b, "%d %d", g.n, len(g.e))
	for _, e := range g.e {
		b.WriteByte(' ')
		b.WriteString(strconv.Itoa(e[0]))
		b.WriteByte(' ')
		b.WriteString(strconv.Itoa(e[1]))
	}
	return b.String()
}

func (g c07G) show() string { return c07show(g.n, len(g.e), g.e) }

func c07show(n, m int, es [][2]int) string {
	parts := make([]string, len(es))
	for i, e := range es {
		parts[i] = strconv.Itoa(e[0]) + "-" + strconv.Itoa(e[1])
	}
	return fmt.Sprintf("n=%d m=%d e=%s", n, m, strings.Join(parts, " "))
}

func (g c07G) dense() *graph.DenseGraph {
	edges := make([]byte, g.n*(g.n-1)/2)
	if g.n == 0 {
		edges = []byte{}
	}
	for _, e := range g.e {
		edges[e[1]*(e[1]-1)/2+e[0]] = 1
	}
	return graph.NewDense(g.n, edges)
}

func (g c07G) sparse() *graph.SparseGraph {
	s := graph.NewSparse(g.n, nil)
	for _, e := range g.e {
		s.AddEdge(e[0], e[1])
	}
	return s
}

func c07sameEdges(a, b [][2]int) bool {
	if len(a) != len(b) {
		return false
	}
	for i := range a {
		if a[i] != b[i] {
			return false
		}
	}
	return true
}

// c07read reads a decoded graph through the Graph interface: edges by IsEdge over all pairs (dense) or through
// Neighbours (sparse, affordable for n = 258048), and reports every inconsistency between N, M, Degrees, Neighbours
// and IsEdge ("well formed").
func c07read(g graph.Graph, byNbrs bool) (n, m int, es [][2]int, bad string) {
	n, m = g.N(), g.M()
	fail := func(f string, a ...interface{}) {
		if bad == "" {
			bad = fmt.Sprintf(f, a...)
		}
	}
	deg := g.Degrees()
	if len(deg) != n {
		fail("Degrees has length %d, N=%d", len(deg), n)
		return
	}
	nbrs := make([][]int, n)
	sum := 0
	for v := 0; v < n; v++ {
		nb := g.Neighbours(v)
		nbrs[v] = nb
		if len(nb) != deg[v] {
			fail("vertex %d: %d neighbours but degree %d", v, len(nb), deg[v])
		}
		sum += len(nb)
		for i, u := range nb {
			if u < 0 || u >= n || u == v || (i > 0 && nb[i-1] >= u) {
				fail("Neighbours(%d)=%v not a strictly increasing list of other vertices", v, nb)
			}
			if u < v {
				es = append(es, [2]int{u, v})
			}
		}
	}
	if sum != 2*m {
		fail("M=%d but the neighbour lists hold %d entries", m, sum)
	}
	has := func(v, u int) bool {
		i := sort.SearchInts(nbrs[v], u)
		return i < len(nbrs[v]) && nbrs[v][i] == u
	}
	for v := 0; v < n; v++ {
		for _, u := range nbrs[v] {
			if u >= 0 && u < n && !has(u, v) {
				fail("%d in Neighbours(%d) but not conversely", u, v)
			}
		}
	}
	if n <= 400 {
		var es2 [][2]int
		for v := 0; v < n; v++ {
			if g.IsEdge(v, v) {
				fail("IsEdge(%d,%d) is true", v, v)
			}
			for u := 0; u < v; u++ {
				a, b := g.IsEdge(u, v), g.IsEdge(v, u)
				if a != b {
					fail("IsEdge(%d,%d) != IsEdge(%d,%d)", u, v, v, u)
				}
				if a != has(v, u) {
					fail("IsEdge(%d,%d)=%v disagrees with Neighbours", u, v, a)
				}
				if a {
					es2 = append(es2, [2]int{u, v})
				}
			}
		}
		if !byNbrs {
			es = es2
		}
	}
	return
}

func c07hex(s []byte) string {
	if len(s) == 0 {
		return "-"
	}
	return hex.EncodeToString(s)
}

func c07unhex(s string) []byte {
	if s == "-" {
		return []byte{}
	}
	b, err := hex.DecodeString(s)
	if err != nil {
		panic("bad hex")
	}
	return b
}

// ---------- formats.txt, transcribed for the harness (independent of the library and of the Lean files) ----------

// c07specN: N(n)
func c07specN(n int) []byte {
	switch {
	case n <= 62:
		return []byte{byte(n + 63)}
	case n <= 258047:
		return []byte{126, byte(63 + n/4096%64), byte(63 + n/64%64), byte(63 + n%64)}
	default:
		out := []byte{126, 126}
		for sh := 30; sh >= 0; sh -= 6 {
			out = append(out, byte(63+(n>>uint(sh))%64))
		}
		return out
	}
}

// c07specReadN reads N(n) from bytes 63..126.
func c07specReadN(s []byte) (n int, rest []byte, ok bool) {
	if len(s) == 0 {
		return 0, nil, false
	}
	if s[0] != 126 {
		return int(s[0]) - 63, s[1:], true
	}
	if len(s) >= 4 && s[1] != 126 {
		return (int(s[1])-63)*4096 + (int(s[2])-63)*64 + int(s[3]) - 63, s[4:], true
	}
	if len(s) >= 8 && s[1] == 126 {
		for i := 2; i < 8; i++ {
			n = n*64 + int(s[i]) - 63
		}
		return n, s[8:], true
	}
	return 0, nil, false
}

func c07inRange(s []byte) bool {
	for _, c := range s {
		if c < 63 || c > 126 {
			return false
		}
	}
	return true
}

// c07specR: R(x)
func c07specR(bits []bool) []byte {
	out := make([]byte, (len(bits)+5)/6)
	for i, b := range bits {
		if b {
			out[i/6] += 32 >> uint(i%6)
		}
	}
	for i := range out {
		out[i] += 63
	}
	return out
}

func c07specBits(s []byte) []bool {
	bits := make([]bool, 0, 6*len(s))
	for _, c := range s {
		x := c - 63
		for j := 5; j >= 0; j-- {
			bits = append(bits, (x>>uint(j))&1 == 1)
		}
	}
	return bits
}

// c07specG6 is the graph6 string of g.
func c07specG6(g c07G) []byte {
	bits := make([]bool, g.n*(g.n-1)/2)
	for _, e := range g.e {
		bits[e[1]*(e[1]-1)/2+e[0]] = true
	}
	return append(c07specN(g.n), c07specR(bits)...)
}

// c07specG6Read reads a graph6 string.
func c07specG6Read(s []byte) (c07G, bool) {
	if !c07inRange(s) {
		return c07G{}, false
	}
	n, rest, ok := c07specReadN(s)
	if !ok || len(rest) != (n*(n-1)/2+5)/6 {
		return c07G{}, false
	}
	bits := c07specBits(rest)
	g := c07G{n: n}
	idx := 0
	for v := 0; v < n; v++ {
		for u := 0; u < v; u++ {
			if bits[idx] {
				g.e = append(g.e, [2]int{u, v})
			}
			idx++
		}
	}
	return g, true
}

// c07specS6Read is the sparse6 reader of formats.txt: returns n and the edge list {x,v} (x <= v) in stream order,
// loops and repeated edges included; an incomplete pair is discarded; reading stops when the vertex pointer
// reaches n (only padding can do that).
func c07specS6Read(s []byte) (n int, es [][2]int, ok bool) {
	if len(s) == 0 || s[0] != ':' || !c07inRange(s[1:]) {
		return 0, nil, false
	}
	n, rest, ok := c07specReadN(s[1:])
	if !ok {
		return 0, nil, false
	}
	k := 0
	for n > 0 && (n-1)>>uint(k) > 0 {
		k++
	}
	bits := c07specBits(rest)
	v := 0
	for p := 0; p+1+k <= len(bits); p += 1 + k {
		if bits[p] {
			v++
		}
		x := 0
		for j := 1; j <= k; j++ {
			x *= 2
			if bits[p+j] {
				x++
			}
		}
		if v >= n {
			break
		}
		if x > v {
			v = x
		} else {
			es = append(es, [2]int{x, v})
		}
	}
	return n, es, true
}

// ---------- reference Pruefer (textbook), used only to enumerate trees for the generator ----------

func c07treeOfCode(code []int) c07G {
	n := len(code) + 2
	deg := make([]int, n)
	for i := range deg {
		deg[i] = 1
	}
	for _, v := range code {
		deg[v]++
	}
	var es [][2]int
	for _, v := range code {
		for j := 0; j < n; j++ {
			if deg[j] == 1 {
				es = append(es, [2]int{j, v})
				deg[j]--
				deg[v]--
				break
			}
		}
	}
	last := []int{}
	for j := 0; j < n; j++ {
		if deg[j] == 1 {
			last = append(last, j)
		}
	}
	es = append(es, [2]int{last[0], last[1]})
	return c07norm(n, es)
}

func c07isTree(n int, es [][2]int) bool {
	if len(es) != n-1 {
		return false
	}
	p := make([]int, n)
	for i := range p {
		p[i] = i
	}
	var find func(int) int
	find = func(x int) int {
		for p[x] != x {
			p[x] = p[p[x]]
			x = p[x]
		}
		return x
	}
	for _, e := range es {
		a, b := find(e[0]), find(e[1])
		if a == b {
			return false
		}
		p[a] = b
	}
	return true
}

// ---------- runners ----------

type c07res struct {
	out    strings.Builder
	oracle string
	tags   []string
}

func (r *c07res) fail(f string, a ...interface{}) {
	if r.oracle == "" {
		r.oracle = fmt.Sprintf(f, a...)
	}
}

func (r *c07res) result() Result { return Result{Out: r.out.String(), Oracle: r.oracle, Tags: r.tags} }

func c07sizeTags(g c07G) []string {
	t := []string{}
	switch {
	case g.n <= 1:
		t = append(t, "n<=1")
	case g.n <= 62:
		t = append(t, "hdr1")
	case g.n <= 258047:
		t = append(t, "hdr4")
	default:
		t = append(t, "hdr8")
	}
	if len(g.e) == 0 {
		t = append(t, "edgeless")
	}
	if g.n >= 3 && len(g.e) >= 1 {
		t = append(t, "nontrivial")
	}
	return t
}

// c07panicked wraps a runner: a panic anywhere in a C07 round trip is itself a violation.
func c07guard(name string, f func(r *c07res)) Result {
	r := &c07res{}
	func() {
		defer func() {
			if e := recover(); e != nil {
				r.out.Reset()
				r.out.WriteString("panic")
				r.fail("%s panicked: %v", name, e)
			}
		}()
		f(r)
	}()
	return r.result()
}

func c07runG6(args []string) Result {
	return c07guard("graph6 round trip", func(r *c07res) {
		g, _ := c07parse(args)
		r.tags = c07sizeTags(g)
		d := g.dense()
		enc := []byte(graph.Graph6Encode(d))
		if g.n <= 64 {
			if e2 := graph.Graph6Encode(g.sparse()); e2 != string(enc) {
				r.fail("Graph6Encode differs between DenseGraph %q and SparseGraph %q", enc, e2)
			}
		}
		if !c07inRange(enc) {
			r.fail("graph6 string %q has a byte outside 63..126", enc)
		}
		if want := c07specG6(g); string(want) != string(enc) {
			r.fail("graph6 string is %q, the format prescribes %q", enc, want)
		}
		if h, ok := c07specG6Read(enc); !ok || h.n != g.n || !c07sameEdges(h.e, g.e) {
			r.fail("a conforming graph6 reader does not read %q back as the graph", enc)
		}
		dec := func(s string, what string) string {
			h, err := graph.Graph6Decode(s)
			if err != nil {
				r.fail("Graph6Decode(%s) failed: %v", what, err)
				return "err"
			}
			n, m, es, bad := c07read(h, false)
			if bad != "" {
				r.fail("Graph6Decode(%s) is not well formed: %s", what, bad)
			}
			if n != g.n || !c07sameEdges(es, g.e) {
				r.fail("Graph6Decode(%s) = %s, expected %s", what, c07show(n, m, es), g.show())
			}
			return c07show(n, m, es)
		}
		a := dec(string(enc), "enc")
		b := dec(">>graph6<<"+string(enc), "header+enc")
		if a == b {
			b = "same"
		}
		fmt.Fprintf(&r.out, "hex=%s dec=%s hdr=%s", c07hex(enc), a, b)
	})
}

func c07runS6(args []string) Result {
	return c07guard("sparse6 round trip", func(r *c07res) {
		g, _ := c07parse(args)
		r.tags = c07sizeTags(g)
		sp := g.sparse()
		enc := []byte(graph.Sparse6Encode(sp))
		check := func(enc []byte, from string) {
			if len(enc) == 0 || enc[0] != ':' || !c07inRange(enc[1:]) {
				r.fail("sparse6 string %q (%s) is not ':' followed by bytes 63..126", enc, from)
				return
			}
			n, es, ok := c07specS6Read(enc)
			if !ok || n != g.n {
				r.fail("a conforming sparse6 reader rejects %q (%s) or reads n=%d", enc, from, n)
				return
			}
			// exactly the edges of g: no loop, no repetition, nothing missing
			if h := c07norm(n, es); len(es) != len(g.e) || !c07sameEdges(h.e, g.e) {
				r.fail("a conforming sparse6 reader reads %q (%s) as %v, the graph is %s", enc, from, es, g.show())
			}
		}
		check(enc, "SparseGraph")
		if g.n <= 300 {
			check([]byte(graph.Sparse6Encode(g.dense())), "DenseGraph")
		}
		// the padding case of the format
		if k := len(enc); k > 0 && (g.n == 2 || g.n == 4 || g.n == 8 || g.n == 16) {
			r.tags = append(r.tags, "pow2")
		}
		dec := func(s string, what string) string {
			h, err := graph.Sparse6Decode(s)
			if err != nil {
				r.fail("Sparse6Decode(%s) failed: %v", what, err)
				return "err"
			}
			n, m, es, bad := c07read(h, true)
			if bad != "" {
				r.fail("Sparse6Decode(%s) is not well formed: %s", what, bad)
			}
			if n != g.n || !c07sameEdges(es, g.e) {
				r.fail("Sparse6Decode(%s) = %s, expected %s", what, c07show(n, m, es), g.show())
			}
			return c07show(n, m, es)
		}
		a := dec(string(enc), "enc")
		b := dec(">>sparse6<<"+string(enc), "header+enc")
		if a == b {
			b = "same"
		}
		fmt.Fprintf(&r.out, "hex=%s dec=%s hdr=%s", c07hex(enc), a, b)
	})
}

func c07checkMc(r *c07res, g c07G, enc []byte) {
	if g.n == 0 {
		if len(enc) != 1 || enc[0] != 0 {
			r.fail("Multicode of the empty graph is %v", enc)
		}
		return
	}
	if len(enc) != g.n+len(g.e) || int(enc[0]) != g.n {
		r.fail("Multicode record %v: expected n=%d first and n+m=%d bytes", enc, g.n, g.n+len(g.e))
	}
	for _, c := range enc[1:] {
		if int(c) > g.n {
			r.fail("Multicode record %v names vertex %d > n", enc, c)
		}
	}
}

func c07runMc(args []string) Result {
	return c07guard("Multicode round trip", func(r *c07res) {
		g, _ := c07parse(args)
		r.tags = c07sizeTags(g)
		if g.n > 255 {
			// a record cannot name more than 255 vertices: refusing (panic) is the documented behaviour and not a
			// violation; an encoder that accepts such a graph must still round-trip it (checked below).
			refused := false
			func() {
				defer func() {
					if recover() != nil {
						refused = true
					}
				}()
				graph.MulticodeEncode(g.dense())
			}()
			if refused {
				r.tags = append(r.tags, "mc-refused")
				r.out.WriteString("panic")
				return
			}
		}
		enc := graph.MulticodeEncode(g.dense())
		if g.n <= 64 {
			if e2 := graph.MulticodeEncode(g.sparse()); string(e2) != string(enc) {
				r.fail("MulticodeEncode differs between DenseGraph and SparseGraph")
			}
		}
		c07checkMc(r, g, enc)
		h := graph.MulticodeDecode(enc)
		n, m, es, bad := c07read(h, false)
		if bad != "" {
			r.fail("MulticodeDecode result not well formed: %s", bad)
		}
		if n != g.n || !c07sameEdges(es, g.e) {
			r.fail("MulticodeDecode(MulticodeEncode(g)) = %s, expected %s", c07show(n, m, es), g.show())
		}
		fmt.Fprintf(&r.out, "hex=%s dec=%s", c07hex(enc), c07show(n, m, es))
	})
}

func c07runMcm(args []string) Result {
	return c07guard("Multicode concatenation", func(r *c07res) {
		k := atoi(args[0])
		rest := args[1:]
		gs := make([]c07G, k)
		var all []byte
		for i := 0; i < k; i++ {
			gs[i], rest = c07parse(rest)
			enc := graph.MulticodeEncode(gs[i].dense())
			c07checkMc(r, gs[i], enc)
			all = append(all, enc...)
			if gs[i].n <= 1 {
				r.tags = append(r.tags, "record-n<=1")
			}
		}
		if k >= 2 {
			r.tags = append(r.tags, "nontrivial")
		}
		hs := graph.MulticodeDecodeMultiple(all)
		if len(hs) != k {
			r.fail("MulticodeDecodeMultiple returned %d graphs for %d records", len(hs), k)
		}
		parts := make([]string, len(hs))
		for i, h := range hs {
			n, m, es, bad := c07read(h, false)
			parts[i] = c07show(n, m, es)
			if bad != "" {
				r.fail("record %d not well formed: %s", i, bad)
			}
			if i < k && (n != gs[i].n || !c07sameEdges(es, gs[i].e)) {
				r.fail("record %d decodes as %s, expected %s", i, parts[i], gs[i].show())
			}
		}
		fmt.Fprintf(&r.out, "hex=%s dec=%s", c07hex(all), strings.Join(parts, ";"))
	})
}

func c07checkCode(r *c07res, code []int, n int) {
	if len(code) != n-2 {
		r.fail("Pruefer code %v of a tree on %d vertices has length %d", code, n, len(code))
	}
	for _, c := range code {
		if c < 0 || c >= n {
			r.fail("Pruefer code %v has an entry outside 0..%d", code, n-1)
		}
	}
}

func c07runPe(args []string) Result {
	return c07guard("Pruefer encode/decode", func(r *c07res) {
		g, _ := c07parse(args)
		if g.n >= 4 {
			r.tags = append(r.tags, "nontrivial")
		}
		code := graph.PruferEncode(g.dense())
		if g.n <= 64 {
			sp := g.sparse()
			if c2 := graph.PruferEncode(sp); fmt.Sprint(c2) != fmt.Sprint(code) {
				r.fail("PruferEncode differs between DenseGraph %v and SparseGraph %v", code, c2)
			}
			// the code is a function of the tree: encoding the same object again gives the same code
			if c3 := graph.PruferEncode(sp); fmt.Sprint(c3) != fmt.Sprint(code) {
				r.fail("PruferEncode of the same SparseGraph a second time gives %v, first time %v", c3, code)
			}
		}
		c07checkCode(r, code, g.n)
		t := graph.PruferDecode(code)
		n, m, es, bad := c07read(t, false)
		if bad != "" {
			r.fail("PruferDecode result not well formed: %s", bad)
		}
		if n != g.n || !c07sameEdges(es, g.e) {
			r.fail("PruferDecode(PruferEncode(t)) = %s, expected %s", c07show(n, m, es), g.show())
		}
		fmt.Fprintf(&r.out, "code=%s tree=%s", showInts(code), c07show(n, m, es))
	})
}

func c07runPd(args []string) Result {
	return c07guard("Pruefer decode/encode", func(r *c07res) {
		k := atoi(args[0])
		code := atois(args[1:])
		if len(code) != k {
			r.out.WriteString("bad-op")
			return
		}
		if k >= 2 {
			r.tags = append(r.tags, "nontrivial")
		}
		t := graph.PruferDecode(code)
		n, m, es, bad := c07read(t, false)
		if bad != "" {
			r.fail("PruferDecode result not well formed: %s", bad)
		}
		if n != k+2 || !c07isTree(n, es) {
			r.fail("PruferDecode(%v) = %s is not a tree on %d vertices", code, c07show(n, m, es), k+2)
		}
		back := graph.PruferEncode(t)
		if fmt.Sprint(back) != fmt.Sprint(code) && !(len(back) == 0 && len(code) == 0) {
			r.fail("PruferEncode(PruferDecode(%v)) = %v", code, back)
		}
		fmt.Fprintf(&r.out, "tree=%s code=%s", c07show(n, m, es), showInts(back))
	})
}

// ---------- generators ----------

func c07fromEG(g EG) c07G { return c07G{g.N, g.E} }

func c07random(r *rand.Rand, n int, p float64) c07G {
	if p > 0 && p < 0.2 && n > 100 { // sparse: pick about p*n*(n-1)/2 pairs directly
		k := int(p * float64(n) * float64(n-1) / 2)
		es := make([][2]int, k)
		for i := range es {
			es[i] = [2]int{r.Intn(n), r.Intn(n)}
		}
		return c07norm(n, es)
	}
	return c07fromEG(randomEG(r, n, p))
}

var c07boundaryN = []int{0, 1, 2, 4, 8, 16, 17, 32, 33, 62, 63, 64}

// c07density draws one of {0, sparse, 1/2, 1}.
func c07density(r *rand.Rand, n int) float64 {
	switch r.Intn(4) {
	case 0:
		return 0
	case 1:
		if n < 2 {
			return 0.5
		}
		return 1.5 / float64(n)
	case 2:
		return 0.5
	default:
		return 2
	}
}

// c07padCase: n a power of two, vertex n-1 isolated, vertex n-2 with an edge (rule 1 of the sparse6 padding).
func c07padCase(r *rand.Rand) c07G {
	n := []int{2, 4, 8, 16, 32, 64}[r.Intn(6)]
	var es [][2]int
	for i := 0; i < r.Intn(4); i++ {
		es = append(es, [2]int{r.Intn(n - 1), r.Intn(n - 1)})
	}
	if n > 2 && r.Intn(4) > 0 {
		es = append(es, [2]int{r.Intn(n - 2), n - 2})
	}
	return c07norm(n, es)
}

func c07genGraphs(r *rand.Rand, tier string, proto string, maxN int, emit func(string)) {
	for _, n := range c07boundaryN {
		if n > maxN {
			continue
		}
		for _, p := range []float64{0, 1.5 / float64(n+1), 0.5, 2} {
			emit(proto + " " + c07random(r, n, p).tokens())
		}
	}
	// all graphs on at most 5 vertices
	for n := 0; n <= 5; n++ {
		for mask := uint64(0); mask < 1<<uint(n*(n-1)/2); mask++ {
			emit(proto + " " + c07fromEG(fromMask(n, mask)).tokens())
		}
	}
	cases := 500
	if tier == "thorough" {
		cases = 12000
	}
	for c := 0; c < cases; c++ {
		var g c07G
		switch r.Intn(10) {
		case 0:
			n := c07boundaryN[r.Intn(len(c07boundaryN))]
			if n > maxN {
				n = maxN
			}
			g = c07random(r, n, c07density(r, n))
		case 1:
			g = c07padCase(r)
		case 2:
			g = c07fromEG(genEG(r, 40))
		case 3: // 17..32: six bits per pair
			n := 17 + r.Intn(16)
			g = c07random(r, n, c07density(r, n))
		default:
			n := r.Intn(min(maxN, 70) + 1)
			g = c07random(r, n, c07density(r, n))
		}
		emit(proto + " " + g.tokens())
	}
}

func c07randomTree(r *rand.Rand, n int) c07G {
	p := r.Perm(n)
	es := make([][2]int, 0, n)
	for v := 1; v < n; v++ {
		u := r.Intn(v)
		if r.Intn(3) == 0 { // long paths
			u = v - 1
		}
		es = append(es, [2]int{p[u], p[v]})
	}
	return c07norm(n, es)
}

func c07codes(n int, f func(code []int)) {
	code := make([]int, n-2)
	var rec func(i int)
	rec = func(i int) {
		if i == len(code) {
			f(code)
			return
		}
		for v := 0; v < n; v++ {
			code[i] = v
			rec(i + 1)
		}
	}
	rec(0)
}

// c07runFmt: the harness's transcription of formats.txt against the Lean transcription (Spec/Formats.lean, run by
// mdrv): the graph6 string the format prescribes, and the edge list the format's sparse6 reader reads from
// Sparse6Encode's string (stream order, loops and repetitions kept).
func c07runFmt(args []string) Result {
	return c07guard("format transcription", func(r *c07res) {
		g, _ := c07parse(args)
		r.tags = c07sizeTags(g)
		g6 := c07specG6(g)
		h, ok := c07specG6Read(g6)
		valid := ok && h.n == g.n && c07sameEdges(h.e, g.e)
		enc := []byte(graph.Sparse6Encode(g.sparse()))
		n, es, ok2 := c07specS6Read(enc)
		s6r := "rejected"
		if ok2 {
			parts := make([]string, len(es))
			for i, e := range es {
				parts[i] = strconv.Itoa(e[0]) + "-" + strconv.Itoa(e[1])
			}
			s6r = fmt.Sprintf("n=%d e=%s", n, strings.Join(parts, " "))
		}
		fmt.Fprintf(&r.out, "g6=%s valid=%v s6r=%s", c07hex(g6), valid, s6r)
	})
}

func init() {
	register(&Proto{Name: "fmt", Props: []string{"C07"}, Run: c07runFmt,
		Gen: func(r *rand.Rand, tier string, emit func(string)) {
			for n := 0; n <= 4; n++ {
				for mask := uint64(0); mask < 1<<uint(n*(n-1)/2); mask++ {
					emit("fmt " + c07fromEG(fromMask(n, mask)).tokens())
				}
			}
			cases := 300
			if tier == "thorough" {
				cases = 5000
			}
			for c := 0; c < cases; c++ {
				var g c07G
				switch r.Intn(5) {
				case 0:
					g = c07padCase(r)
				case 1:
					n := c07boundaryN[r.Intn(len(c07boundaryN))]
					g = c07random(r, n, c07density(r, n))
				default:
					n := r.Intn(71)
					g = c07random(r, n, c07density(r, n))
				}
				emit("fmt " + g.tokens())
			}
		}})
	register(&Proto{Name: "g6", Props: []string{"C07"}, Run: c07runG6,
		Gen: func(r *rand.Rand, tier string, emit func(string)) {
			c07genGraphs(r, tier, "g6", 64, emit)
			big := []int{100, 130}
			if tier == "thorough" {
				big = []int{100, 150, 200, 250, 300}
			}
			for _, n := range big {
				emit("g6 " + c07random(r, n, c07density(r, n)).tokens())
				emit("g6 " + c07random(r, n, 0.5).tokens())
			}
		}})
	register(&Proto{Name: "s6", Props: []string{"C07"}, Run: c07runS6,
		Gen: func(r *rand.Rand, tier string, emit func(string)) {
			c07genGraphs(r, tier, "s6", 64, emit)
			// around the 4-/8-byte header boundary, a few sparse graphs
			for _, n := range []int{258047, 258048} {
				emit("s6 " + c07G{n: n}.tokens())
				emit("s6 " + c07norm(n, [][2]int{{0, 1}, {n - 3, n - 2}, {5, n - 1}}).tokens())
				es := make([][2]int, 12)
				for i := range es {
					es[i] = [2]int{r.Intn(n), r.Intn(n)}
				}
				emit("s6 " + c07norm(n, es).tokens())
			}
			for _, n := range []int{100, 200, 1000, 4096} {
				emit("s6 " + c07random(r, n, 3/float64(n)).tokens())
			}
		}})
	register(&Proto{Name: "mc", Props: []string{"C07"}, Run: c07runMc,
		Gen: func(r *rand.Rand, tier string, emit func(string)) {
			for n := 0; n <= 4; n++ {
				for mask := uint64(0); mask < 1<<uint(n*(n-1)/2); mask++ {
					emit("mc " + c07fromEG(fromMask(n, mask)).tokens())
				}
			}
			emit("mc " + c07G{n: 255}.tokens())
			emit("mc " + c07norm(255, [][2]int{{0, 254}, {253, 254}}).tokens())
			emit("mc " + c07G{n: 256}.tokens())
			emit("mc " + c07norm(256, [][2]int{{0, 255}, {3, 4}}).tokens())
			cases := 300
			if tier == "thorough" {
				cases = 6000
			}
			for c := 0; c < cases; c++ {
				n := r.Intn(71)
				switch r.Intn(12) {
				case 0:
					n = 255
				case 1:
					n = 200 + r.Intn(56)
				}
				p := c07density(r, n)
				if n > 100 && p > 0.5 {
					p = 0.05
				}
				emit("mc " + c07random(r, n, p).tokens())
			}
		}})
	register(&Proto{Name: "mcm", Props: []string{"C07"}, Run: c07runMcm,
		Gen: func(r *rand.Rand, tier string, emit func(string)) {
			emit("mcm 0")
			emit("mcm 1 0 0")
			emit("mcm 1 1 0")
			emit("mcm 2 0 0 0 0")
			emit("mcm 3 1 0 0 0 1 0")
			emit("mcm 3 2 1 0 1 1 0 2 0")
			cases := 400
			if tier == "thorough" {
				cases = 8000
			}
			for c := 0; c < cases; c++ {
				k := 1 + r.Intn(6)
				var b strings.Builder
				fmt.Fprintf(&b, "mcm %d", k)
				for i := 0; i < k; i++ {
					n := r.Intn(12)
					switch r.Intn(6) {
					case 0:
						n = r.Intn(2)
					case 1:
						n = 2
					case 2:
						n = r.Intn(41)
					}
					b.WriteString(" " + c07random(r, n, c07density(r, n)).tokens())
				}
				emit(b.String())
			}
		}})
	register(&Proto{Name: "pe", Props: []string{"C07"}, Run: c07runPe,
		Gen: func(r *rand.Rand, tier string, emit func(string)) {
			top := 6
			if tier == "thorough" {
				top = 7
			}
			for n := 2; n <= top; n++ {
				c07codes(n, func(code []int) { emit("pe " + c07treeOfCode(code).tokens()) })
			}
			cases := 150
			if tier == "thorough" {
				cases = 3000
			}
			for c := 0; c < cases; c++ {
				n := 2 + r.Intn(40)
				if r.Intn(5) == 0 {
					n = 2 + r.Intn(199)
				}
				emit("pe " + c07randomTree(r, n).tokens())
			}
		}})
	register(&Proto{Name: "pd", Props: []string{"C07"}, Run: c07runPd,
		Gen: func(r *rand.Rand, tier string, emit func(string)) {
			top := 6
			if tier == "thorough" {
				top = 7
			}
			for n := 2; n <= top; n++ {
				c07codes(n, func(code []int) { emit(strings.TrimSpace(fmt.Sprintf("pd %d %s", len(code), joinInts(code)))) })
			}
			cases := 150
			if tier == "thorough" {
				cases = 3000
			}
			for c := 0; c < cases; c++ {
				n := 2 + r.Intn(40)
				if r.Intn(5) == 0 {
					n = 2 + r.Intn(199)
				}
				code := make([]int, n-2)
				top := n
				if r.Intn(3) == 0 { // few distinct labels: high-degree vertices
					top = 1 + r.Intn(3)
				}
				for i := range code {
					code[i] = r.Intn(top)
				}
				emit(strings.TrimSpace(fmt.Sprintf("pd %d %s", len(code), joinInts(code))))
			}
		}})
}
