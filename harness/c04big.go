package main

import (
	"bytes"
	"fmt"
	"math/rand"
	"time"

	"github.com/Tom-Johnston/mamba/graph"
	"github.com/Tom-Johnston/mamba/graph/search"
)

// Protocol c04big (property C04): save/load on searches with more vertices than the sequence-level stream c04seq can
// carry (its oracle table limits n), through the sparse hereditary predicates of c03big.
//
//	c04big <pred> <n> <place> <k1> <k2> ...       pred = deg2 | forest, place = pre | prune
//
// A fresh iterator WithPruning(n, 0, 1, pred@place) is advanced k1 times, saved, loaded, the LOADED iterator is
// advanced k2 times, saved, loaded, ... and finally run to exhaustion.  Oracle (the statement of C04 on the
// implementation): the graphs yielded along the chain are, in the same order, the graphs an uninterrupted iterator yields.
// Reply count=<number of graphs yielded along the chain>; the Lean driver replies with the number of isomorphism
// classes (C03.handleBig), which is what an exact search yields with m = 1.
func init() {
	register(&Proto{
		Name:    "c04big",
		Props:   []string{"C04"},
		Timeout: 600 * time.Second,
		Run: func(args []string) Result {
			if len(args) < 3 {
				return Result{Out: "bad-op"}
			}
			pname, n, place := args[0], atoi(args[1]), args[2]
			if _, ok := c03BigExpected(pname, n); !ok {
				return Result{Out: "bad-op"}
			}
			ks := []int{}
			for _, a := range args[3:] {
				k := atoi(a)
				if k < 0 {
					return Result{Out: "bad-op"}
				}
				ks = append(ks, k)
			}
			key := c03Deg2Key
			if pname == "forest" {
				key = c03ForestKey
			}
			prunef := func(g *graph.DenseGraph) bool { return key(c03AdjList(g)) == "" }
			no := func(*graph.DenseGraph) bool { return false }
			pre, pr := no, no
			switch place {
			case "pre":
				pre = prunef
			case "prune":
				pr = prunef
			default:
				return Result{Out: "bad-op"}
			}
			ref := []string{}
			it := search.WithPruning(n, 0, 1, pre, pr)
			for it.Next() {
				ref = append(ref, c03Graph6Of(it.Value()))
			}
			got := []string{}
			it = search.WithPruning(n, 0, 1, pre, pr)
			for _, k := range ks {
				for j := 0; j < k && it.Next(); j++ {
					got = append(got, c03Graph6Of(it.Value()))
				}
				it = search.Load(bytes.NewReader(c04Save(it)), pre, pr)
			}
			for it.Next() {
				got = append(got, c03Graph6Of(it.Value()))
				if len(got) > len(ref)+10 {
					break
				}
			}
			oracle := ""
			cfg := fmt.Sprintf("WithPruning(n=%d, %s as %s, a=0, m=1), saved and loaded after %v further graphs", n, pname, place, ks)
			for i := 0; i < len(ref) || i < len(got); i++ {
				if i >= len(ref) || i >= len(got) || ref[i] != got[i] {
					r, g := "<exhausted>", "<exhausted>"
					if i < len(ref) {
						r = ref[i]
					}
					if i < len(got) {
						g = got[i]
					}
					oracle = fmt.Sprintf("%s: graph #%d of the resumed chain is %s, the uninterrupted iterator yields %s (%d vs %d graphs in all)", cfg, i, g, r, len(got), len(ref))
					break
				}
			}
			tags := []string{"big-" + pname, "place-" + place, fmt.Sprintf("n%d", n), fmt.Sprintf("saves%d", len(ks))}
			if n >= 8 && len(ks) > 0 {
				tags = append(tags, "nontrivial")
			}
			return Result{Out: fmt.Sprintf("count=%d", len(got)), Oracle: oracle, Tags: tags}
		},
		Gen: func(r *rand.Rand, tier string, emit func(string)) {
			sizes := []int{9, 13, 16, 17, 18, 19, 20}
			reps := 2
			if tier == "thorough" {
				sizes = append(sizes, 21, 22, 23, 24)
				reps = 6
			}
			for _, n := range sizes {
				for c := 0; c < reps; c++ {
					emit(fmt.Sprintf("c04big deg2 %d %s %d %d %d", n, []string{"pre", "prune"}[r.Intn(2)], r.Intn(6), r.Intn(60), r.Intn(600)))
				}
			}
			for _, n := range []int{10, 12} {
				emit(fmt.Sprintf("c04big forest %d %s %d %d", n, []string{"pre", "prune"}[r.Intn(2)], r.Intn(6), r.Intn(60)))
			}
		},
	})
}
