package main

import (
	"fmt"
	"math"
	"math/rand"
	"sort"
	"strconv"
	"strings"
	"time"
)

// Property C11, stream pemb: planar graphs together with a combinatorial embedding (rotation system).
//
//   pemb <form> <seed> n m u v ... (deg_v nb_1 .. nb_deg) for v = 0..n-1
//
// Reply: ok | bad = verdict on the certificate (Go: c11EmbOK; Lean: Minor.isPlanarEmbeddingCert): the rotation system
// lists exactly the neighbours of every vertex and satisfies Euler's formula V - E + F = 2 in every component (faces
// counted by face tracing). IsPlanar is judged in the oracle: it must answer true whenever the certificate is valid.
// The generator carries the rotation system through the construction (stacked triangulations combinatorially, the
// other pieces from straight-line coordinates; gluing at a cut vertex concatenates rotations; deleting edges keeps an
// embedding), so the planarity of these inputs is checked per input instead of being trusted to the construction.

// c11EmbOK checks a rotation system against the graph and Euler's formula.
func c11EmbOK(g EG, rot [][]int) bool {
	if len(rot) != g.N {
		return false
	}
	nb := make([]map[int]bool, g.N)
	for v := range nb {
		nb[v] = map[int]bool{}
	}
	for _, e := range g.E {
		nb[e[0]][e[1]] = true
		nb[e[1]][e[0]] = true
	}
	pos := make([]map[int]int, g.N) // pos[v][u] = index of u in rot[v]
	darts := 0
	for v := 0; v < g.N; v++ {
		if len(rot[v]) != len(nb[v]) {
			return false
		}
		pos[v] = map[int]int{}
		for i, u := range rot[v] {
			if u < 0 || u >= g.N || !nb[v][u] {
				return false
			}
			if _, dup := pos[v][u]; dup {
				return false
			}
			pos[v][u] = i
		}
		darts += len(rot[v])
	}
	// faces: orbits of (v,u) -> (u, successor of v in rot[u])
	type dart struct{ v, i int }
	seen := map[dart]bool{}
	faces := 0
	for v := 0; v < g.N; v++ {
		for i := range rot[v] {
			if seen[dart{v, i}] {
				continue
			}
			faces++
			cv, ci := v, i
			for !seen[dart{cv, ci}] {
				seen[dart{cv, ci}] = true
				u := rot[cv][ci]
				j := pos[u][cv]
				cv, ci = u, (j+1)%len(rot[u])
			}
		}
	}
	// components
	comp := make([]int, g.N)
	for i := range comp {
		comp[i] = -1
	}
	comps, iso := 0, 0
	for s := 0; s < g.N; s++ {
		if len(rot[s]) == 0 {
			iso++
		}
		if comp[s] >= 0 {
			continue
		}
		comp[s] = comps
		stack := []int{s}
		for len(stack) > 0 {
			v := stack[len(stack)-1]
			stack = stack[:len(stack)-1]
			for _, u := range rot[v] {
				if comp[u] < 0 {
					comp[u] = comps
					stack = append(stack, u)
				}
			}
		}
		comps++
	}
	return 2*g.N+2*faces+2*iso == darts+4*comps
}

// builder with a rotation system
type c11R struct {
	*c11B
	rot map[int][]int
}

func c11NewR() *c11R { return &c11R{c11NewB(), map[int][]int{}} }

// merge the local rotation of a new piece: at a shared (cut) vertex the rotations are concatenated
func (b *c11R) merge(lr map[int][]int) {
	keys := []int{}
	for v := range lr {
		keys = append(keys, v)
	}
	sort.Ints(keys)
	for _, v := range keys {
		for _, u := range lr[v] {
			b.e(v, u)
		}
		b.rot[v] = append(b.rot[v], lr[v]...)
	}
}

// rotation from straight-line coordinates: neighbours sorted counter-clockwise by angle
func c11ByAngle(pos map[int][2]float64, edges [][2]int) map[int][]int {
	lr := map[int][]int{}
	for v := range pos {
		lr[v] = nil
	}
	for _, e := range edges {
		lr[e[0]] = append(lr[e[0]], e[1])
		lr[e[1]] = append(lr[e[1]], e[0])
	}
	for v, l := range lr {
		p := pos[v]
		sort.Slice(l, func(i, j int) bool {
			a := math.Atan2(pos[l[i]][1]-p[1], pos[l[i]][0]-p[0])
			c := math.Atan2(pos[l[j]][1]-p[1], pos[l[j]][0]-p[0])
			return a < c
		})
	}
	return lr
}

func c11InsertAfter(l []int, x, w int) []int {
	for i, y := range l {
		if y == x {
			out := append([]int{}, l[:i+1]...)
			out = append(out, w)
			return append(out, l[i+1:]...)
		}
	}
	panic("c11: generator bug: vertex not in rotation")
}

func (b *c11R) mk(k, root int) []int {
	vs := []int{b.root(root)}
	for len(vs) < k {
		vs = append(vs, b.v())
	}
	return vs
}

// stacked triangulation; faces are kept as oriented triples (a,b,c) with: c follows b in rot[a], a follows c in rot[b],
// b follows a in rot[c]
func (b *c11R) stackedR(r *rand.Rand, k, root int) []int {
	if k < 3 {
		k = 3
	}
	vs := b.mk(3, root)
	lr := map[int][]int{vs[0]: {vs[1], vs[2]}, vs[1]: {vs[2], vs[0]}, vs[2]: {vs[0], vs[1]}}
	faces := [][3]int{{vs[0], vs[1], vs[2]}, {vs[0], vs[2], vs[1]}}
	for len(vs) < k {
		i := r.Intn(len(faces))
		f := faces[i]
		w := b.v()
		vs = append(vs, w)
		lr[f[0]] = c11InsertAfter(lr[f[0]], f[1], w)
		lr[f[1]] = c11InsertAfter(lr[f[1]], f[2], w)
		lr[f[2]] = c11InsertAfter(lr[f[2]], f[0], w)
		lr[w] = []int{f[0], f[1], f[2]}
		faces[i] = [3]int{f[0], f[1], w}
		faces = append(faces, [3]int{f[1], f[2], w}, [3]int{f[2], f[0], w})
	}
	b.merge(lr)
	return vs
}

func (b *c11R) coordPiece(vs []int, xy [][2]float64, edges [][2]int) []int {
	pos := map[int][2]float64{}
	for i, v := range vs {
		pos[v] = xy[i]
	}
	b.merge(c11ByAngle(pos, edges))
	return vs
}

func (b *c11R) gridR(r *rand.Rand, a, c, root int, diag bool) []int {
	vs := b.mk(a*c, root)
	xy := make([][2]float64, a*c)
	var es [][2]int
	for i := 0; i < a; i++ {
		for j := 0; j < c; j++ {
			xy[i*c+j] = [2]float64{float64(j), float64(i)}
			if i+1 < a {
				es = append(es, [2]int{vs[i*c+j], vs[(i+1)*c+j]})
			}
			if j+1 < c {
				es = append(es, [2]int{vs[i*c+j], vs[i*c+j+1]})
			}
			if diag && i+1 < a && j+1 < c {
				if r.Intn(2) == 0 {
					es = append(es, [2]int{vs[i*c+j], vs[(i+1)*c+j+1]})
				} else {
					es = append(es, [2]int{vs[(i+1)*c+j], vs[i*c+j+1]})
				}
			}
		}
	}
	return b.coordPiece(vs, xy, es)
}

func c11Circle(k int, rad float64) [][2]float64 {
	xy := make([][2]float64, k)
	for i := range xy {
		t := 2 * math.Pi * float64(i) / float64(k)
		xy[i] = [2]float64{rad * math.Cos(t), rad * math.Sin(t)}
	}
	return xy
}

func (b *c11R) cycleR(k, root int) []int {
	if k < 3 {
		k = 3
	}
	vs := b.mk(k, root)
	var es [][2]int
	for i := range vs {
		es = append(es, [2]int{vs[i], vs[(i+1)%k]})
	}
	return b.coordPiece(vs, c11Circle(k, 1), es)
}

func (b *c11R) wheelR(k, root int) []int {
	if k < 3 {
		k = 3
	}
	vs := b.mk(k+1, root) // vs[0] = hub
	xy := append([][2]float64{{0, 0}}, c11Circle(k, 1)...)
	var es [][2]int
	for i := 1; i <= k; i++ {
		es = append(es, [2]int{vs[0], vs[i]}, [2]int{vs[i], vs[1+i%k]})
	}
	return b.coordPiece(vs, xy, es)
}

// polygon with non-crossing chords (points in convex position); optionally an apex in the outer face joined to all
func (b *c11R) outerR(r *rand.Rand, k, root int, apex bool) []int {
	if k < 3 {
		k = 3
	}
	vs := b.mk(k, root)
	var es [][2]int
	for i := range vs {
		es = append(es, [2]int{vs[i], vs[(i+1)%k]})
	}
	var tri func(i, j int)
	tri = func(i, j int) {
		if j-i < 2 {
			return
		}
		m := i + 1 + r.Intn(j-i-1)
		if m-i >= 2 && r.Intn(4) > 0 {
			es = append(es, [2]int{vs[i], vs[m]})
		}
		if j-m >= 2 && r.Intn(4) > 0 {
			es = append(es, [2]int{vs[m], vs[j]})
		}
		tri(i, m)
		tri(m, j)
	}
	tri(0, k-1)
	pos := map[int][2]float64{}
	for i, p := range c11Circle(k, 1) {
		pos[vs[i]] = p
	}
	lr := c11ByAngle(pos, es)
	if apex {
		a := b.v()
		for i := range vs {
			// the outer face lies between the polygon neighbours i-1 and i+1: the apex goes after i-1
			lr[vs[i]] = c11InsertAfter(lr[vs[i]], vs[(i+k-1)%k], a)
			lr[a] = append(lr[a], vs[k-1-i])
		}
		vs = append(vs, a)
	}
	b.merge(lr)
	return vs
}

func (b *c11R) treeR(r *rand.Rand, k, root int) []int {
	vs := []int{b.root(root)}
	lr := map[int][]int{vs[0]: nil}
	for len(vs) < k {
		w := b.v()
		p := vs[r.Intn(len(vs))]
		lr[w] = append(lr[w], p)
		lr[p] = append(lr[p], w)
		vs = append(vs, w)
	}
	b.merge(lr)
	return vs
}

func (b *c11R) smallR(r *rand.Rand, root int) []int {
	switch r.Intn(3) {
	case 0: // cube: two nested squares
		vs := b.mk(8, root)
		xy := [][2]float64{{-2, -2}, {2, -2}, {2, 2}, {-2, 2}, {-1, -1}, {1, -1}, {1, 1}, {-1, 1}}
		var es [][2]int
		for i := 0; i < 4; i++ {
			es = append(es, [2]int{vs[i], vs[(i+1)%4]}, [2]int{vs[4+i], vs[4+(i+1)%4]}, [2]int{vs[i], vs[4+i]})
		}
		return b.coordPiece(vs, xy, es)
	case 1: // K2,k: two poles and k points on a line between them
		k := 3 + r.Intn(6)
		vs := b.mk(2+k, root)
		xy := [][2]float64{{0, 5}, {0, -5}}
		var es [][2]int
		for j := 0; j < k; j++ {
			xy = append(xy, [2]float64{float64(j) - float64(k)/2 + 0.25, 0})
			es = append(es, [2]int{vs[0], vs[2+j]}, [2]int{vs[1], vs[2+j]})
		}
		return b.coordPiece(vs, xy, es)
	default: // octahedron: a triangle inside a triangle
		vs := b.mk(6, root)
		xy := [][2]float64{{0, 10}, {-9, -6}, {9, -6}, {0, -2}, {1.8, 1.2}, {-1.8, 1.2}}
		es := [][2]int{{vs[0], vs[1]}, {vs[1], vs[2]}, {vs[0], vs[2]}, {vs[3], vs[4]}, {vs[4], vs[5]}, {vs[3], vs[5]},
			{vs[0], vs[4]}, {vs[0], vs[5]}, {vs[1], vs[5]}, {vs[1], vs[3]}, {vs[2], vs[3]}, {vs[2], vs[4]}}
		return b.coordPiece(vs, xy, es)
	}
}

func (b *c11R) pieceR(r *rand.Rand, k, root int) ([]int, string) {
	switch r.Intn(9) {
	case 0, 1, 2:
		return b.stackedR(r, k, root), "stacked"
	case 3:
		a := 2 + r.Intn(4)
		c := k / a
		if c < 2 {
			c = 2
		}
		d := r.Intn(2) == 0
		if d {
			return b.gridR(r, a, c, root, true), "trigrid"
		}
		return b.gridR(r, a, c, root, false), "grid"
	case 4:
		if k < 4 {
			k = 4
		}
		return b.wheelR(k-1, root), "wheel"
	case 5:
		return b.outerR(r, k, root, r.Intn(2) == 0), "outerplanar"
	case 6:
		return b.treeR(r, k, root), "tree"
	case 7:
		return b.cycleR(k, root), "cycle"
	default:
		return b.smallR(r, root), "small"
	}
}

func c11PlanarR(r *rand.Rand, size, pieces int) *c11R {
	b := c11NewR()
	for i := 0; i < pieces; i++ {
		k := size / pieces
		if k < 3 {
			k = 3
		}
		k = 3 + r.Intn(2*k-2)
		root := -1
		mode := r.Intn(4)
		if b.n > 0 && mode >= 2 {
			root = r.Intn(b.n)
		}
		old := b.n
		vs, _ := b.pieceR(r, k, root)
		if old > 0 && mode == 1 { // bridge
			u, v := r.Intn(old), vs[r.Intn(len(vs))]
			if v >= old {
				b.e(u, v)
				b.rot[u] = append(b.rot[u], v)
				b.rot[v] = append(b.rot[v], u)
			}
		}
	}
	return b
}

// delete every edge with probability p, keeping the rotation of the rest
func (b *c11R) thinR(r *rand.Rand, p float64) {
	b.c11B.thin(r, p)
	for v, l := range b.rot {
		out := l[:0:0]
		for _, u := range l {
			if b.has(v, u) {
				out = append(out, u)
			}
		}
		b.rot[v] = out
	}
}

func c11EmbLine(r *rand.Rand, b *c11R, corrupt bool) string {
	g := b.EG()
	q := r.Perm(g.N)
	h := c11Relabel(g, q)
	rot := make([][]int, g.N)
	for v := 0; v < g.N; v++ {
		for _, u := range b.rot[v] {
			rot[q[v]] = append(rot[q[v]], q[u])
		}
	}
	if corrupt && g.N > 0 {
		v := r.Intn(g.N)
		if len(rot[v]) >= 3 {
			i, j := r.Intn(len(rot[v])), r.Intn(len(rot[v]))
			rot[v][i], rot[v][j] = rot[v][j], rot[v][i]
		} else if len(rot[v]) > 0 {
			rot[v] = rot[v][1:]
		}
	}
	var sb strings.Builder
	sb.WriteString("pemb " + c11Form(r) + " " + strconv.FormatInt(r.Int63(), 10) + " " + h.Tokens())
	for v := 0; v < g.N; v++ {
		fmt.Fprintf(&sb, " %d", len(rot[v]))
		for _, u := range rot[v] {
			fmt.Fprintf(&sb, " %d", u)
		}
	}
	return sb.String()
}

func c11ParseRot(n int, toks []string) [][]int {
	rot := make([][]int, 0, n)
	i := 0
	for v := 0; v < n; v++ {
		if i >= len(toks) {
			return nil
		}
		d := atoi(toks[i])
		i++
		if d < 0 || i+d > len(toks) {
			return nil
		}
		rot = append(rot, atois(toks[i:i+d]))
		i += d
	}
	if i != len(toks) {
		return nil
	}
	return rot
}

func init() {
	register(&Proto{
		Name:    "pemb",
		Props:   []string{"C11"},
		Timeout: 120 * time.Second,
		Run: func(args []string) Result {
			form := args[0]
			seed, _ := strconv.ParseInt(args[1], 10, 64)
			g, rest := parseEG(args[2:])
			rot := c11ParseRot(g.N, rest)
			ok := rot != nil && c11EmbOK(g, rot)
			tags := map[string]bool{}
			expect, why, out := -1, "", "bad"
			if ok {
				out = "ok"
				expect, why = 1, "the request carries a rotation system that satisfies Euler's formula"
			}
			tags["emb-"+out] = true
			_, oracle := c11Judge(g, form, expect, why, seed, tags)
			return Result{Out: out, Oracle: oracle, Tags: c11Tags(g, tags)}
		},
		Gen: func(r *rand.Rand, tier string, emit func(string)) {
			cases, maxN := 450, 60
			if tier == "thorough" {
				cases, maxN = 3500, 300
			}
			// boundary: K4 with a planar and with a toroidal rotation, a path, isolated vertices
			emit("pemb d 1 4 6 0 1 0 2 1 2 0 3 1 3 2 3 3 1 3 2 3 2 3 0 3 0 3 1 3 0 1 2")
			emit("pemb d 2 4 6 0 1 0 2 1 2 0 3 1 3 2 3 3 1 2 3 3 2 3 0 3 0 3 1 3 0 1 2")
			emit("pemb s 3 3 2 0 1 1 2 1 1 2 0 2 1 1")
			emit("pemb d 4 5 0 0 0 0 0 0")
			emit("pemb d 5 0 0")
			for c := 0; c < cases; c++ {
				size := 5 + r.Intn(maxN-4)
				if r.Intn(3) == 0 {
					size = 5 + r.Intn(16)
				}
				pieces := 1
				if r.Intn(2) == 0 {
					pieces = 1 + r.Intn(8)
				}
				b := c11PlanarR(r, size, pieces)
				if r.Intn(2) == 0 {
					b.thinR(r, 0.5*r.Float64())
				}
				emit(c11EmbLine(r, b, r.Intn(12) == 0))
			}
		},
	})
}
