//go:build !verif_noints

package main

import (
	"fmt"
	"math"
	"math/rand"
	"sort"
	"strings"

	"github.com/Tom-Johnston/mamba/ints"
	"github.com/Tom-Johnston/mamba/sortints"
)

// Property C17. Protocols `si` (package sortints) and `srt` (ints.Sort and, through the verif hook
// ints/verif_export.go, its unexported parts). Request formats: see lean/Mamba/Drv/C17.lean.
//
// Oracle (independent of the Lean model): map based set semantics; every result strictly increasing;
// arguments of every call compared with copies taken before the call, including the spare capacity of
// argument slices; aliasing probes (write to the result, look at the arguments, and the other way round);
// ints.Sort against sort.Ints; sorted / permutation / frame for the hooks; three-way contract for doPivot.

const c17Canary = 7770000

type c17Fail struct{ msg string }

func (f *c17Fail) f(format string, a ...interface{}) {
	if f.msg == "" {
		f.msg = fmt.Sprintf(format, a...)
	}
}

func c17Set(xs ...[]int) map[int]bool {
	m := map[int]bool{}
	for _, x := range xs {
		for _, v := range x {
			m[v] = true
		}
	}
	return m
}

// c17CheckSet: got must be strictly increasing and contain exactly the elements of want.
func c17CheckSet(fl *c17Fail, what string, got []int, want map[int]bool) {
	for i := 1; i < len(got); i++ {
		if got[i-1] >= got[i] {
			fl.f("%s = %v is not strictly increasing", what, got)
			return
		}
	}
	for _, v := range got {
		if !want[v] {
			fl.f("%s = %v contains %d which is not in the mathematical result", what, got, v)
			return
		}
	}
	if len(got) != len(want) { // got has no repeats here
		fl.f("%s = %v misses %d element(s) of the mathematical result", what, got, len(want)-len(got))
	}
}

// c17Arg is an argument slice with spare capacity filled with canaries, and a record of its content.
type c17Arg struct {
	s    []int // the slice handed to the library
	full []int // s[:cap(s)]
	want []int // copy of full taken at creation
}

func c17NewArg(x []int, spare int) *c17Arg {
	full := make([]int, len(x)+spare)
	copy(full, x)
	for i := len(x); i < len(full); i++ {
		full[i] = c17Canary + i
	}
	return &c17Arg{s: full[:len(x)], full: full, want: append([]int(nil), full...)}
}

func (a *c17Arg) check(fl *c17Fail, what string) {
	for i := range a.full {
		if a.full[i] != a.want[i] {
			where := "argument"
			if i >= len(a.s) {
				where = "spare capacity of argument"
			}
			fl.f("%s: %s modified at index %d: %v -> %v", what, where, i, a.want, a.full)
			return
		}
	}
}

// c17Alias: result and argument must not share memory: write to one, look at the other.
func c17Alias(fl *c17Fail, what string, res []int, args ...*c17Arg) {
	if len(res) > 0 {
		save := append([]int(nil), res...)
		for i := range res {
			res[i] = -c17Canary - i
		}
		for _, a := range args {
			a.check(fl, what+" (after writing to the result)")
		}
		copy(res, save)
	}
	for _, a := range args {
		save := append([]int(nil), res...)
		for i := range a.full {
			a.full[i] = -2*c17Canary - i
		}
		for i := range res {
			if res[i] != save[i] {
				fl.f("%s: result changes when the argument is written to (aliasing)", what)
				break
			}
		}
		copy(a.full, a.want)
	}
}

func c17Canonical(a []int) bool {
	for i := 1; i < len(a); i++ {
		if a[i-1] >= a[i] {
			return false
		}
	}
	return true
}

// c17RunSi: no call of package sortints may panic on canonical inputs, except Range on an infinite set
// (handled inside); a panic anywhere else is an oracle failure.
func c17RunSi(args []string) (res Result) {
	defer func() {
		if e := recover(); e != nil {
			if s, ok := e.(string); ok && strings.HasPrefix(s, "bad int") {
				panic(e)
			}
			res = Result{Out: "panic", Oracle: fmt.Sprintf("si %s panicked: %v", strings.Join(args, " "), e), Tags: []string{"panic"}}
		}
	}()
	return c17RunSiInner(args)
}

func c17RunSiInner(args []string) Result {
	fl := &c17Fail{}
	if len(args) == 0 {
		return Result{Out: "bad-op"}
	}
	op := args[0]
	parts := splitTok(args[1:], "|")
	tags := []string{"si-" + op}
	size := 0
	out := ""
	switch op {
	case "new":
		x := atois(args[1:])
		size = len(x)
		ax := c17NewArg(x, len(x)%3)
		r := sortints.NewSortedInts(ax.s...)
		ax.check(fl, "NewSortedInts")
		c17CheckSet(fl, "NewSortedInts", r, c17Set(x))
		out = showInts(r)
		c17Alias(fl, "NewSortedInts", r, ax)
	case "range":
		s, e, st := atoi(args[1]), atoi(args[2]), atoi(args[3])
		infinite := (e < s && st > 0) || (e > s && st < 0) || (e != s && st == 0)
		var r sortints.SortedInts
		out = guard(func() string { r = sortints.Range(s, e, st); return showInts(r) })
		if infinite {
			if out != "panic" {
				fl.f("Range(%d,%d,%d) describes an infinite set but returned %v", s, e, st, out)
			}
		} else if out == "panic" {
			fl.f("Range(%d,%d,%d) panicked", s, e, st)
		} else {
			want := map[int]bool{}
			if st > 0 {
				for v := s; v < e; v += st {
					want[v] = true
				}
			} else if st < 0 {
				for v := s; v > e; v += st {
					want[v] = true
				}
			}
			c17CheckSet(fl, fmt.Sprintf("Range(%d,%d,%d)", s, e, st), r, want)
			size = len(want)
		}
	case "remove":
		x := atoi(parts[0][0])
		s := atois(parts[1])
		size = len(s)
		recv := sortints.SortedInts(c17NewArg(s, len(s)%2).s)
		recv.Remove(x)
		want := c17Set(s)
		delete(want, x)
		c17CheckSet(fl, fmt.Sprintf("%v.Remove(%d)", s, x), recv, want)
		out = showInts(recv)
	case "add":
		s, x := atois(parts[0]), atois(parts[1])
		size = len(s) + len(x)
		recv := sortints.SortedInts(c17NewArg(s, len(x)%4).s)
		ax := c17NewArg(x, len(s)%3)
		what := fmt.Sprintf("%v.Add(%v)", s, x)
		out = guard(func() string { recv.Add(ax.s...); return showInts(recv) })
		if out == "panic" {
			fl.f("%s panicked", what)
		} else {
			ax.check(fl, what)
			c17CheckSet(fl, what, recv, c17Set(s, x))
			c17Alias(fl, what, recv, ax)
		}
	case "um":
		a, spare, b := atois(parts[0]), atois(parts[1]), atois(parts[2])
		size = len(a) + len(b)
		backing := make([]int, len(a), len(a)+len(spare))
		copy(backing, a)
		copy(backing[len(a):cap(backing)], spare)
		recv := sortints.SortedInts(backing)
		ab := c17NewArg(b, len(a)%3)
		what := fmt.Sprintf("%v(cap %d).Union(%v)", a, cap(backing), b)
		out = guard(func() string { recv.Union(ab.s); return showInts(recv) })
		if out == "panic" {
			fl.f("%s panicked", what)
		} else {
			ab.check(fl, what)
			c17CheckSet(fl, what, recv, c17Set(a, b))
			c17Alias(fl, what, recv, ab)
			if len(spare) > 0 {
				tags = append(tags, "um-spare")
			}
		}
	case "bin":
		a, b := atois(parts[0]), atois(parts[1])
		size = len(a) + len(b)
		aa, ab := c17NewArg(a, 1+len(b)), c17NewArg(b, 1+len(a))
		inA, inB := c17Set(a), c17Set(b)
		u, in, mi, xo := map[int]bool{}, map[int]bool{}, map[int]bool{}, map[int]bool{}
		for v := range c17Set(a, b) {
			u[v] = true
			if inA[v] && inB[v] {
				in[v] = true
			}
			if inA[v] && !inB[v] {
				mi[v] = true
			}
			if inA[v] != inB[v] {
				xo[v] = true
			}
		}
		var sb strings.Builder
		check := func(name string, r []int, want map[int]bool) {
			what := fmt.Sprintf("%s(%v, %v)", name, a, b)
			aa.check(fl, what)
			ab.check(fl, what)
			c17CheckSet(fl, what, r, want)
			c17Alias(fl, what, r, aa, ab)
		}
		r := sortints.Union(aa.s, ab.s)
		sb.WriteString("u=" + showInts(r))
		check("Union", r, u)
		r = sortints.Intersection(aa.s, ab.s)
		sb.WriteString(" i=" + showInts(r))
		check("Intersection", r, in)
		n := sortints.IntersectionSize(aa.s, ab.s)
		fmt.Fprintf(&sb, " n=%d", n)
		if n != len(in) {
			fl.f("IntersectionSize(%v, %v) = %d, the intersection has %d elements", a, b, n, len(in))
		}
		aa.check(fl, "IntersectionSize")
		ab.check(fl, "IntersectionSize")
		r = sortints.SetMinus(aa.s, ab.s)
		sb.WriteString(" m=" + showInts(r))
		check("SetMinus", r, mi)
		r = sortints.XOR(aa.s, ab.s)
		sb.WriteString(" x=" + showInts(r))
		check("XOR", r, xo)
		cs := sortints.ContainsSorted(aa.s, ab.s)
		fmt.Fprintf(&sb, " cs=%v", cs)
		if cs != (len(in) == len(inB)) {
			fl.f("ContainsSorted(%v, %v) = %v", a, b, cs)
		}
		aa.check(fl, "ContainsSorted")
		ab.check(fl, "ContainsSorted")
		out = sb.String()
		if len(in) > 0 && len(mi) > 0 && len(xo) > len(mi) {
			tags = append(tags, "bin-generic")
		}
	case "compl":
		n := atoi(parts[0][0])
		a := atois(parts[1])
		size = len(a) + 1
		aa := c17NewArg(a, 2)
		what := fmt.Sprintf("Complement(%d, %v)", n, a)
		var r sortints.SortedInts
		out = guard(func() string { r = sortints.Complement(n, aa.s); return showInts(r) })
		if out == "panic" {
			fl.f("%s panicked", what)
		} else {
			inA := c17Set(a)
			want := map[int]bool{}
			for v := 0; v < n; v++ {
				if !inA[v] {
					want[v] = true
				}
			}
			aa.check(fl, what)
			c17CheckSet(fl, what, r, want)
			c17Alias(fl, what, r, aa)
		}
	case "has":
		x := atoi(parts[0][0])
		a := atois(parts[1])
		size = len(a)
		aa := c17NewArg(a, 1)
		r := sortints.ContainsSingle(aa.s, x)
		if r != c17Set(a)[x] {
			fl.f("ContainsSingle(%v, %d) = %v", a, x, r)
		}
		aa.check(fl, "ContainsSingle")
		out = fmt.Sprint(r)
	case "hist":
		segs := splitTok(args[1:], ";")
		init := splitTok(segs[0], "|")
		s, spare := atois(init[0]), atois(init[1])
		backing := make([]int, len(s), len(s)+len(spare))
		copy(backing, s)
		copy(backing[len(s):cap(backing)], spare)
		recv := sortints.SortedInts(backing)
		cur := c17Set(s)
		outs := []string{}
		for k, sg := range segs[1:] {
			if len(sg) == 0 {
				return Result{Out: "bad-op"}
			}
			what := fmt.Sprintf("history step %d (%s) on %v", k+1, strings.Join(sg, " "), []int(recv))
			switch sg[0] {
			case "add":
				ax := c17NewArg(atois(sg[1:]), k%3)
				recv.Add(ax.s...)
				ax.check(fl, what)
				for _, v := range ax.want[:len(ax.s)] {
					cur[v] = true
				}
				c17Alias(fl, what, recv, ax)
			case "rm":
				if len(sg) != 2 {
					return Result{Out: "bad-op"}
				}
				x := atoi(sg[1])
				recv.Remove(x)
				delete(cur, x)
			case "un":
				ab := c17NewArg(atois(sg[1:]), k%3)
				recv.Union(ab.s)
				ab.check(fl, what)
				for _, v := range ab.want[:len(ab.s)] {
					cur[v] = true
				}
				c17Alias(fl, what, recv, ab)
			default:
				return Result{Out: "bad-op"}
			}
			c17CheckSet(fl, what, recv, cur)
			outs = append(outs, showInts(recv))
			size += len(sg)
		}
		out = strings.Join(outs, ";")
	default:
		return Result{Out: "bad-op"}
	}
	if size >= 3 {
		tags = append(tags, "nontrivial")
	}
	return Result{Out: out, Oracle: fl.msg, Tags: tags}
}

// c17CheckSorted: data[a:b] sorted, a permutation of orig[a:b], everything else untouched.
func c17CheckSorted(fl *c17Fail, what string, orig, data []int, a, b int) {
	if len(orig) != len(data) {
		fl.f("%s: length changed", what)
		return
	}
	for i := range data {
		if (i < a || i >= b) && data[i] != orig[i] {
			fl.f("%s: element %d outside [%d,%d) changed: %v -> %v", what, i, a, b, orig, data)
			return
		}
	}
	if a < 0 || b > len(data) || a >= b {
		return
	}
	e := append([]int(nil), orig[a:b]...)
	sort.Ints(e)
	for i := range e {
		if e[i] != data[a+i] {
			fl.f("%s: %v became %v, sort.Ints gives %v", what, orig[a:b], data[a:b], e)
			return
		}
	}
}

// c17PivContract is what quickSort needs from doPivot(data, lo, hi) = (mlo, mhi) in order to sort (it does
// not need progress: the loop of quickSort is bounded by maxDepth): the bounds are ordered, nothing outside
// [lo,hi) moves, data[lo:hi] is permuted, and data[lo:mlo] <= data[mlo:mhi] <= data[mhi:hi] element-wise with
// data[mlo:mhi] constant.
func c17PivContract(orig, data []int, lo, hi, mlo, mhi int) string {
	if !(lo <= mlo && mlo <= mhi && mhi <= hi) {
		return fmt.Sprintf("bounds lo=%d midlo=%d midhi=%d hi=%d", lo, mlo, mhi, hi)
	}
	for i := range data {
		if (i < lo || i >= hi) && data[i] != orig[i] {
			return fmt.Sprintf("element %d outside [lo,hi) changed", i)
		}
	}
	x, y := append([]int(nil), orig[lo:hi]...), append([]int(nil), data[lo:hi]...)
	sort.Ints(x)
	sort.Ints(y)
	for i := range x {
		if x[i] != y[i] {
			return "data[lo:hi] is not a permutation of its old content"
		}
	}
	// max of the left part <= every middle element (all equal) <= min of the right part
	for i := lo; i < mlo; i++ {
		for j := mlo; j < hi; j++ {
			if data[i] > data[j] {
				return fmt.Sprintf("data[%d]=%d left of midlo > data[%d]=%d", i, data[i], j, data[j])
			}
		}
	}
	for i := mlo; i < mhi; i++ {
		if data[i] != data[mlo] {
			return fmt.Sprintf("data[%d]=%d differs from data[midlo]=%d inside [midlo,midhi)", i, data[i], data[mlo])
		}
		for j := mhi; j < hi; j++ {
			if data[i] > data[j] {
				return fmt.Sprintf("data[%d]=%d inside [midlo,midhi) > data[%d]=%d", i, data[i], j, data[j])
			}
		}
	}
	return ""
}

func c17RunSrt(args []string) Result {
	fl := &c17Fail{}
	if len(args) == 0 {
		return Result{Out: "bad-op"}
	}
	op := args[0]
	tags := []string{"srt-" + op}
	out := ""
	sizeTag := func(n int) {
		switch {
		case n > 40:
			tags = append(tags, "srt-n>40", "nontrivial")
		case n > 12:
			tags = append(tags, "srt-n>12", "nontrivial")
		default:
			tags = append(tags, "srt-n<=12")
		}
	}
	switch op {
	case "sort":
		x := atois(args[1:])
		c := append([]int(nil), x...)
		if guard(func() string { ints.Sort(c); return "" }) == "panic" {
			return Result{Out: "panic", Oracle: fmt.Sprintf("Sort(%v) panicked", x), Tags: []string{"panic"}}
		}
		c17CheckSorted(fl, fmt.Sprintf("Sort(%v)", x), x, c, 0, len(x))
		out = showInts(c)
		sizeTag(len(x))
	case "ins", "heap", "qs":
		parts := splitTok(args[1:], "|")
		p := atois(parts[0])
		x := atois(parts[1])
		c := append([]int(nil), x...)
		a, b := p[0], p[1]
		var what string
		out = guard(func() string {
			switch op {
			case "ins":
				what = fmt.Sprintf("insertionSort(%v, %d, %d)", x, a, b)
				ints.VerifInsertionSort(c, a, b)
			case "heap":
				what = fmt.Sprintf("heapSort(%v, %d, %d)", x, a, b)
				ints.VerifHeapSort(c, a, b)
			case "qs":
				what = fmt.Sprintf("quickSort(%v, %d, %d, %d)", x, a, b, p[2])
				ints.VerifQuickSort(c, a, b, p[2])
			}
			return showInts(c)
		})
		if out == "panic" {
			if 0 <= a && a <= b && b <= len(x) {
				fl.f("%s panicked", what)
			}
		} else {
			c17CheckSorted(fl, what, x, c, a, b)
		}
		sizeTag(b - a)
	case "piv", "pivx":
		parts := splitTok(args[1:], "|")
		p := atois(parts[0])
		x := atois(parts[1])
		c := append([]int(nil), x...)
		lo, hi := p[0], p[1]
		var mlo, mhi int
		out = guard(func() string { mlo, mhi = ints.VerifDoPivot(c, lo, hi); return "" })
		if out == "panic" {
			if 0 <= lo && lo+3 <= hi && hi <= len(x) {
				fl.f("doPivot(%v, %d, %d) panicked", x, lo, hi)
			}
		} else {
			msg := c17PivContract(x, c, lo, hi, mlo, mhi)
			if msg != "" && hi-lo >= 3 { // the three sampled positions lo, m, hi-1 are distinct from 3 elements on
				fl.f("doPivot(%v, %d, %d) = (%d, %d) leaves %v: %s", x, lo, hi, mlo, mhi, c, msg)
			}
			if op == "pivx" {
				out = fmt.Sprintf("%d %d %s", mlo, mhi, showInts(c))
			} else if msg == "" {
				out = "piv-ok"
			} else {
				out = "piv-bad"
			}
		}
		sizeTag(hi - lo)
	case "mdx":
		out = fmt.Sprint(ints.VerifMaxDepth(atoi(args[1])))
	default:
		return Result{Out: "bad-op"}
	}
	return Result{Out: out, Oracle: fl.msg, Tags: tags}
}

// ---- generators ----

func c17RandSet(r *rand.Rand, maxLen, lo, span int) []int {
	n := r.Intn(maxLen + 1)
	m := map[int]bool{}
	for i := 0; i < n; i++ {
		m[lo+r.Intn(span)] = true
	}
	out := make([]int, 0, len(m))
	for v := range m {
		out = append(out, v)
	}
	sort.Ints(out)
	return out
}

func c17RandList(r *rand.Rand, maxLen, lo, span int) []int {
	n := r.Intn(maxLen + 1)
	out := make([]int, n)
	for i := range out {
		out[i] = lo + r.Intn(span)
	}
	return out
}

func c17J(a []int) string {
	if len(a) == 0 {
		return ""
	}
	return " " + joinInts(a)
}

func c17GenSi(r *rand.Rand, tier string, emit func(string)) {
	cases := 2500
	if tier == "thorough" {
		cases = 30000
	}
	// boundary cases
	for _, l := range []string{
		"si new", "si new 0", "si new 5 5 5", "si new 2 1 2 1 -1",
		"si range 0 0 0", "si range 3 3 -2", "si range 0 1 0", "si range 0 5 -1", "si range 5 0 1",
		"si range 10 0 -3", "si range -5 -6 -1", "si range 0 10 3", "si range 0 9 3", "si range 0 1 100", "si range 1 0 -100",
		"si range 7 -7 -7", "si range -7 7 7", "si range 2 -4 -1",
		"si remove 1 |", "si remove 1 | 1", "si remove 0 | 1", "si remove 2 | 1", "si remove 3 | 1 2 3", "si remove 1 | 1 2 3",
		"si add |", "si add | 1", "si add | 1 1", "si add 1 |", "si add 1 2 3 | 2 2", "si add 1 5 | 5 5 3", "si add 1 5 | 3 5 5",
		"si add 10 | 2 1 1 20 10 15 15", "si add 1 2 3 | 3 3 3 1 1 2", "si add 5 | 7 7 6 6 5 5 4 4",
		"si um | |", "si um 1 | |", "si um | | 1", "si um | 9 9 | 1 2", "si um 1 3 5 | | 2 3 8 9", "si um 1 3 5 | 7 7 7 7 | 2 3 8 9",
		"si um 1 3 5 | 7 7 7 | 0", "si um 4 5 6 | 0 0 0 | 1 2 3", "si um 1 2 3 | 0 0 0 | 4 5 6", "si um 1 2 3 | 0 0 | 4 5 6",
		"si bin |", "si bin 1 |", "si bin | 1", "si bin 1 | 1", "si bin 1 2 3 | 2 3 4", "si bin 1 3 5 | 2 4 6", "si bin 1 2 | 3 4", "si bin 3 4 | 1 2",
		"si bin 1 2 3 4 | 2 3", "si bin 2 3 | 1 2 3 4",
		"si bin 9223372036854775807 | -1", "si bin -1 | 9223372036854775807", "si bin -9223372036854775808 | 1", "si bin -9223372036854775808 0 9223372036854775807 | -9223372036854775808 9223372036854775807",
		"si bin -7 -4 -1 2 5 8 11 14 17 | 17", "si bin -7 -4 -1 2 5 8 11 14 17 | -7", "si bin -7 -4 -1 2 5 8 11 14 17 | 14 17", "si bin 0 1 2 3 4 5 6 7 8 9 10 11 12 13 14 15 16 17 | 16 17",
		"si compl 0 |", "si compl -3 |", "si compl 3 |", "si compl 3 | 0 1 2", "si compl 2 | 0 1 2 3 4", "si compl 5 | -2 -1 1 7", "si compl 4 | 9",
		"si has 1 |", "si has 1 | 1", "si has 2 | 1", "si has 0 | 1", "si has 3 | 1 3 5", "si has 4 | 1 3 5",
		"si hist | ; add 1 ; rm 1 ; un 1 ; add 1 1", "si hist 1 2 3 | 9 9 ; add 5 4 ; rm 2 ; un 2 7 ; un 8 ; rm 8 ; un 0",
	} {
		emit(l)
	}
	for c := 0; c < cases; c++ {
		maxLen, lo, span := 7, -3, 12
		if c%5 == 4 {
			maxLen, lo, span = 40, -20, 90
		}
		set := func() []int { return c17RandSet(r, maxLen, lo, span) }
		list := func() []int { return c17RandList(r, maxLen, lo, span) }
		elem := func() int { return lo - 1 + r.Intn(span+2) }
		emit("si new" + c17J(list()))
		{
			s, e := elem(), elem()
			st := r.Intn(9) - 4
			if r.Intn(3) > 0 { // mostly valid
				if e > s && st <= 0 {
					st = 1 + r.Intn(4)
				} else if e < s && st >= 0 {
					st = -1 - r.Intn(4)
				}
			}
			emit(fmt.Sprintf("si range %d %d %d", s, e, st))
		}
		{
			s := set()
			x := elem()
			if len(s) > 0 && r.Intn(2) == 0 {
				x = s[r.Intn(len(s))]
			}
			emit(fmt.Sprintf("si remove %d |%s", x, c17J(s)))
			x = elem()
			if len(s) > 0 && r.Intn(2) == 0 {
				x = s[r.Intn(len(s))]
			}
			emit(fmt.Sprintf("si has %d |%s", x, c17J(s)))
		}
		{
			s := set()
			x := list()
			// make "repeated and already present" likely
			if len(s) > 0 && len(x) > 1 && r.Intn(2) == 0 {
				v := s[r.Intn(len(s))]
				x[r.Intn(len(x))] = v
				x[r.Intn(len(x))] = v
			}
			emit("si add" + c17J(s) + " |" + c17J(x))
		}
		{
			a, b := set(), set()
			spare := c17RandList(r, len(b)+2, 50, 5)
			switch r.Intn(4) {
			case 0:
				spare = nil
			case 1: // exactly enough / one too few
				u := len(c17Set(a, b)) - len(a)
				if r.Intn(2) == 0 && u > 0 {
					u--
				}
				spare = make([]int, u)
			}
			emit("si um" + c17J(a) + " |" + c17J(spare) + " |" + c17J(b))
			a, b = set(), set()
			switch r.Intn(6) {
			case 0:
				b = append([]int(nil), a...)
			case 1: // b ⊆ a
				b = nil
				for _, v := range a {
					if r.Intn(2) == 0 {
						b = append(b, v)
					}
				}
			case 2: // a ⊆ b
				t := a
				a = nil
				for _, v := range t {
					if r.Intn(2) == 0 {
						a = append(a, v)
					}
				}
				b = t
			}
			emit("si bin" + c17J(a) + " |" + c17J(b))
			if c%4 == 0 { // very different sizes: a small b inside a long a, ends of a included
				a = c17RandSet(r, 60, -30, 140)
				b = nil
				for len(a) > 0 && len(b) < 1+r.Intn(3) {
					switch r.Intn(4) {
					case 0:
						b = append(b, a[len(a)-1])
					case 1:
						b = append(b, a[0])
					case 2:
						b = append(b, a[r.Intn(len(a))])
					default:
						b = append(b, -31+r.Intn(143))
					}
				}
				b = c17SortedSet(b)
				if r.Intn(2) == 0 {
					emit("si bin" + c17J(a) + " |" + c17J(b))
				} else {
					emit("si bin" + c17J(b) + " |" + c17J(a))
				}
			}
			if c%4 == 1 { // members at the ends of the int range: differences of members do not fit an int
				ext := []int{math.MinInt64, math.MinInt64 + 1, math.MinInt64 / 2, -2, -1, 0, 1, 2, math.MaxInt64 / 2, math.MaxInt64 - 1, math.MaxInt64}
				pick := func() []int {
					var x []int
					for _, v := range ext {
						if r.Intn(3) == 0 {
							x = append(x, v)
						}
					}
					return x
				}
				emit("si bin" + c17J(pick()) + " |" + c17J(pick()))
			}
		}
		emit(fmt.Sprintf("si compl %d |%s", r.Intn(span+3)-2, c17J(set())))
		{
			var b strings.Builder
			b.WriteString("si hist" + c17J(set()) + " |" + c17J(c17RandList(r, 6, 50, 5)))
			for k := 1 + r.Intn(8); k > 0; k-- {
				switch r.Intn(4) {
				case 0:
					b.WriteString(" ; add" + c17J(list()))
				case 1, 2:
					fmt.Fprintf(&b, " ; rm %d", elem())
				default:
					b.WriteString(" ; un" + c17J(set()))
				}
			}
			emit(b.String())
		}
	}
}

// c17Shape returns an adversarial array of length n.
func c17Shape(r *rand.Rand, n int) []int {
	x := make([]int, n)
	switch r.Intn(10) {
	case 0: // sorted
		for i := range x {
			x[i] = i
		}
	case 1: // reversed
		for i := range x {
			x[i] = n - i
		}
	case 2: // organ pipe
		for i := range x {
			if i < n/2 {
				x[i] = i
			} else {
				x[i] = n - i
			}
		}
	case 3: // all equal
		v := r.Intn(5)
		for i := range x {
			x[i] = v
		}
	case 4: // two values
		for i := range x {
			x[i] = r.Intn(2)
		}
	case 5: // few values
		k := 2 + r.Intn(4)
		for i := range x {
			x[i] = r.Intn(k) - 1
		}
	case 6: // sawtooth
		k := 2 + r.Intn(7)
		for i := range x {
			x[i] = i % k
		}
	case 7: // sorted with a few random elements
		for i := range x {
			x[i] = i
		}
		for k := 0; k < 1+n/10; k++ {
			if n > 0 {
				x[r.Intn(n)] = r.Intn(n + 1)
			}
		}
	case 8: // pivot value everywhere except a few
		for i := range x {
			x[i] = 5
		}
		for k := 0; k < 1+n/8; k++ {
			if n > 0 {
				x[r.Intn(n)] = r.Intn(11)
			}
		}
	default: // random
		for i := range x {
			x[i] = r.Intn(2*n+1) - n
		}
	}
	return x
}

func c17GenSrt(r *rand.Rand, tier string, emit func(string)) {
	cases := 1500
	if tier == "thorough" {
		cases = 20000
	}
	for _, l := range []string{
		"srt sort", "srt sort 1", "srt sort 2 1", "srt sort 1 1", "srt sort 3 2 1 3 2 1 3 2 1 3 2 1 0",
		"srt ins 0 0 |", "srt ins 0 1 | 5", "srt ins 1 3 | 9 8 7 6", "srt ins 2 2 | 3 2 1",
		"srt heap 0 0 |", "srt heap 0 1 | 5", "srt heap 0 2 | 2 1", "srt heap 1 4 | 9 8 7 6 5", "srt heap 2 2 | 3 2 1", "srt heap 0 3 | 1 2 3",
		"srt qs 0 0 0 |", "srt qs 0 13 0 | 5 4 3 2 1 9 8 7 6 5 4 3 2", "srt qs 1 14 1 | 0 5 4 3 2 1 9 8 7 6 5 4 3 2 0",
		"srt piv 0 3 | 2 1 3", "srt piv 0 3 | 3 2 1", "srt piv 1 4 | 0 1 1 1 0", "srt piv 0 13 | 5 4 3 2 1 9 8 7 6 5 4 3 2",
	} {
		emit(l)
	}
	size := func() int {
		switch r.Intn(6) {
		case 0:
			return r.Intn(13)
		case 1:
			return 12 + r.Intn(4)
		case 2:
			return 13 + r.Intn(28)
		case 3:
			return 39 + r.Intn(5)
		case 4:
			return 41 + r.Intn(60)
		default:
			return 100 + r.Intn(200)
		}
	}
	for c := 0; c < cases; c++ {
		emit("srt sort" + c17J(c17Shape(r, size())))
		// sub-range calls: data with a margin on both sides
		n := size()
		if n > 120 {
			n = 120
		}
		pre, post := r.Intn(3), r.Intn(3)
		x := c17Shape(r, pre+n+post)
		a, b := pre, pre+n
		switch c % 4 {
		case 0:
			if n > 20 {
				b = a + r.Intn(21)
			}
			emit(fmt.Sprintf("srt ins %d %d |%s", a, b, c17J(x)))
		case 1:
			emit(fmt.Sprintf("srt heap %d %d |%s", a, b, c17J(x)))
		case 2:
			emit(fmt.Sprintf("srt qs %d %d %d |%s", a, b, r.Intn(4), c17J(x)))
		default:
			if n < 3 {
				b = a + 3
				x = c17Shape(r, b+post)
			}
			emit(fmt.Sprintf("srt piv %d %d |%s", a, b, c17J(x)))
		}
	}
}

func init() {
	register(&Proto{Name: "si", Props: []string{"C17"}, Run: c17RunSi, Gen: c17GenSi})
	register(&Proto{Name: "srt", Props: []string{"C17"}, Run: c17RunSrt, Gen: c17GenSrt})
}

// c17SortedSet returns the distinct members of x in increasing order.
func c17SortedSet(x []int) []int {
	var out []int
	for v := range c17Set(x) {
		out = append(out, v)
	}
	sort.Ints(out)
	return out
}
