package main

import (
	"fmt"
	"math/rand"

	"github.com/Tom-Johnston/mamba/graph"
)

// Protocols of C08 (byte strings are hex, "-" = empty):
//
//	g6d <hex>   err | ok <graph> re=<hex of Graph6Encode(graph)> again=<Graph6Decode(re)>   ("same" if equal)
//	s6d <hex>   the same for sparse6
//
// Oracle: the decoder does not panic; when it succeeds the graph is well formed (N, M, Degrees, Neighbours, IsEdge
// agree, no loop) on the number of vertices the size header declares (parsed by the harness itself), and
// re-encoding and decoding again gives the same graph.

// c08declared: the vertex count a string declares (after the optional header and, for sparse6, the ':'), -1 if none.
func c08declared(s []byte, sparse bool) int {
	magic := ">>graph6<<"
	if sparse {
		magic = ">>sparse6<<"
	}
	if len(s) >= len(magic) && string(s[:len(magic)]) == magic {
		s = s[len(magic):]
	}
	if sparse {
		if len(s) == 0 || s[0] != ':' {
			return -1
		}
		s = s[1:]
	}
	if !c07inRange(s) {
		return -1
	}
	if len(s) == 0 {
		if sparse {
			return -1
		}
		return 0
	}
	n, _, ok := c07specReadN(s)
	if !ok {
		return -1
	}
	return n
}

// c08lenientN: the vertex count Sparse6Decode would compute from the bytes behind the ':' if it did NOT check the
// byte range (byte arithmetic as in the Go code). Used only by the generator to keep the allocation of
// NewSparse(n) bounded even when the range check of the code under test is broken.
func c08lenientN(s []byte) int {
	magic := ">>sparse6<<"
	if len(s) >= len(magic) && string(s[:len(magic)]) == magic {
		s = s[len(magic):]
	}
	if len(s) > 0 && s[0] == ':' {
		s = s[1:]
	}
	d := func(c byte) int { return int(c - 63) }
	switch {
	case len(s) == 0:
		return 0
	case s[0] != 126:
		return d(s[0])
	case len(s) >= 4 && s[1] != 126:
		return d(s[1])<<12 + d(s[2])<<6 + d(s[3])
	case len(s) >= 8:
		n := 0
		for i := 2; i < 8; i++ {
			n = n<<6 + d(s[i])
		}
		return n
	}
	return 0
}

func c08run(sparse bool) func(args []string) Result {
	name := "Graph6Decode"
	if sparse {
		name = "Sparse6Decode"
	}
	return func(args []string) Result {
		s := c07unhex(args[0])
		r := &c07res{}
		if len(s) >= 2 {
			r.tags = append(r.tags, "nontrivial")
		}
		decl := c08declared(s, sparse)
		decode := func(s string) (g graph.Graph, err error) {
			if sparse {
				h, e := graph.Sparse6Decode(s)
				return h, e
			}
			h, e := graph.Graph6Decode(s)
			return h, e
		}
		encode := func(g graph.Graph) string {
			if sparse {
				return graph.Sparse6Encode(g)
			}
			return graph.Graph6Encode(g)
		}
		func() {
			defer func() {
				if e := recover(); e != nil {
					r.out.Reset()
					r.out.WriteString("panic")
					r.tags = append(r.tags, "panic")
					r.fail("%s(%q) panicked: %v", name, s, e)
				}
			}()
			g, err := decode(string(s))
			if err != nil {
				r.out.WriteString("err")
				r.tags = append(r.tags, "err")
				return
			}
			r.tags = append(r.tags, "accepted")
			n, m, es, bad := c07read(g, sparse)
			if bad != "" {
				r.fail("%s(%q) is not well formed: %s", name, s, bad)
			}
			if n != decl {
				r.fail("%s(%q) has %d vertices, the string declares %d", name, s, n, decl)
			}
			first := c07show(n, m, es)
			re := encode(g)
			g2, err2 := decode(re)
			again := "err"
			if err2 != nil {
				r.fail("%s of the re-encoded graph %q failed: %v", name, re, err2)
			} else {
				n2, m2, es2, bad2 := c07read(g2, sparse)
				again = c07show(n2, m2, es2)
				if bad2 != "" || again != first {
					r.fail("decode(encode(decode(%q))) = %s differs from %s %s", s, again, first, bad2)
				}
			}
			if again == first {
				again = "same"
			}
			fmt.Fprintf(&r.out, "ok %s re=%s again=%s", first, c07hex([]byte(re)), again)
		}()
		return r.result()
	}
}

var c08alphabet = []byte{0, 10, 58, 62, 63, 64, 65, 94, 125, 126, 127, 255}

// c08bitsToBytes packs a bit list the sparse6 way (caller supplies the padding).
func c08bitsToBytes(bits []bool) []byte {
	for len(bits)%6 != 0 {
		bits = append(bits, true)
	}
	return c07specR(bits)
}

func c08numBits(k, x int) []bool {
	out := make([]bool, k)
	for j := 0; j < k; j++ {
		out[j] = (x>>uint(k-1-j))&1 == 1
	}
	return out
}

// c08stream: a hand-made sparse6 string on n vertices from random (b,x) groups, x possibly >= n.
func c08stream(r *rand.Rand, n int) []byte {
	k := 0
	for n > 0 && (n-1)>>uint(k) > 0 {
		k++
	}
	var bits []bool
	groups := r.Intn(12)
	for i := 0; i < groups; i++ {
		bits = append(bits, r.Intn(2) == 0)
		x := r.Intn(1 << uint(k))
		if r.Intn(4) == 0 && n > 0 {
			x = r.Intn(n)
		}
		bits = append(bits, c08numBits(k, x)...)
	}
	extra := r.Intn(4)
	for i := 0; i < extra; i++ {
		bits = append(bits, r.Intn(2) == 0)
	}
	hdr := c07specN(n)
	if r.Intn(6) == 0 { // non-minimal header
		hdr = []byte{126, byte(63 + n/4096%64), byte(63 + n/64%64), byte(63 + n%64)}
	}
	return append(append([]byte{':'}, hdr...), c08bitsToBytes(bits)...)
}

func c08mutate(r *rand.Rand, s []byte, sparse bool) []byte {
	t := append([]byte{}, s...)
	switch r.Intn(9) {
	case 0: // truncate
		if len(t) > 0 {
			t = t[:r.Intn(len(t))]
		}
	case 1: // extend
		for i := 0; i <= r.Intn(4); i++ {
			t = append(t, byte(63+r.Intn(64)))
		}
	case 2: // flip a bit
		if len(t) > 0 {
			t[r.Intn(len(t))] ^= 1 << uint(r.Intn(8))
		}
	case 3: // out-of-range byte
		if len(t) > 0 {
			t[r.Intn(len(t))] = []byte{62, 127, 0, 255, 58}[r.Intn(5)]
		}
	case 4: // replace the size header by another one
		off := 0
		if sparse {
			off = 1
		}
		if len(t) > off {
			n2 := []int{0, 1, 2, 3, 5, 8, 16, 31, 32, 62, 63, 64, 100, 1000, 4095, 4096}[r.Intn(16)]
			var h []byte
			switch r.Intn(3) {
			case 0:
				h = c07specN(n2)
			case 1:
				h = []byte{126, byte(63 + n2/4096%64), byte(63 + n2/64%64), byte(63 + n2%64)}
			default:
				h = []byte{126, 126, 63, 63, 63, byte(63 + n2/4096%64), byte(63 + n2/64%64), byte(63 + n2%64)}
			}
			_, rest, ok := c07specReadN(t[off:])
			if !ok {
				rest = nil
			}
			t = append(append(append([]byte{}, t[:off]...), h...), rest...)
		}
	case 5: // optional header, possibly damaged
		m := ">>graph6<<"
		if sparse != (r.Intn(8) == 0) {
			m = ">>sparse6<<"
		}
		if r.Intn(3) == 0 {
			m = m[:r.Intn(len(m))]
		}
		t = append([]byte(m), t...)
	case 6: // truncate inside the header / body by one
		if len(t) > 0 {
			t = t[:len(t)-1]
		}
	case 7: // long header markers
		off := 0
		if sparse {
			off = 1
		}
		if i := off + r.Intn(2); i < len(t) {
			t[i] = 126
		}
	default: // duplicate the tail
		if len(t) > 2 {
			t = append(t, t[len(t)/2:]...)
		}
	}
	return t
}

// c08specS6: a plain sparse6 writer (padding with 1s only; used as raw material for mutation, not as an oracle).
func c08specS6(g c07G) []byte {
	k := 0
	for g.n > 0 && (g.n-1)>>uint(k) > 0 {
		k++
	}
	var bits []bool
	cur := 0
	for _, e := range g.e {
		u, v := e[0], e[1]
		switch {
		case v == cur:
			bits = append(bits, false)
		case v == cur+1:
			bits = append(bits, true)
			cur++
		default:
			bits = append(bits, true)
			bits = append(bits, c08numBits(k, v)...)
			bits = append(bits, false)
			cur = v
		}
		bits = append(bits, c08numBits(k, u)...)
	}
	return append(append([]byte{':'}, c07specN(g.n)...), c08bitsToBytes(bits)...)
}

func c08gen(sparse bool) func(r *rand.Rand, tier string, emit func(string)) {
	proto := "g6d"
	if sparse {
		proto = "s6d"
	}
	return func(r *rand.Rand, tier string, emit func(string)) {
		out := func(s []byte) {
			// declared n <= 4096 (Sparse6Decode allocates n neighbour lists before reading the stream)
			if d := c08declared(s, sparse); d > 4096 && (sparse || r.Intn(4) != 0) {
				return
			}
			if sparse && c08lenientN(s) > 4096 {
				return
			}
			emit(proto + " " + c07hex(s))
		}
		// the defects of the original tree and other fixed boundary strings
		for _, s := range []string{"", "~", "~~", "~??", "~~?????", ":", ":?", ":@", ":A", ":An", ":~", ":~~", ":~?@", ">>graph6<<",
			">>sparse6<<", ">>sparse6<<:", ">>graph6<<~", ">>graph6<<?", ">>sparse6<<:?", ":Bw", ":B~", ":Cw~", "A", "A_", "A~", "B", "Bw", "?", "@",
			"~?@", "~?@?", "~~?????@", "~~~~~~~~", "~~??@???", "~~??C???", "~~??D???", "~~??C??@", ":~~?????@", ":~~?????@~~", ":~?@?~~~"} {
			out([]byte(s))
		}
		// all strings of length <= 3 over the boundary alphabet (and behind ':' for sparse6)
		var rec func(prefix []byte, depth int)
		rec = func(prefix []byte, depth int) {
			out(prefix)
			if depth == 0 {
				return
			}
			for _, c := range c08alphabet {
				rec(append(append([]byte{}, prefix...), c), depth-1)
			}
		}
		rec([]byte{}, 3)
		if sparse {
			for _, a := range c08alphabet {
				for _, b := range c08alphabet {
					for _, c := range c08alphabet {
						out([]byte{':', a, b, c})
					}
				}
			}
		}
		cases := 2500
		if tier == "thorough" {
			cases = 60000
		}
		for c := 0; c < cases; c++ {
			n := r.Intn(20)
			switch r.Intn(8) {
			case 0:
				n = c07boundaryN[r.Intn(len(c07boundaryN))]
			case 1:
				n = 60 + r.Intn(12)
			}
			var s []byte
			if sparse && r.Intn(3) == 0 {
				s = c08stream(r, n)
			} else {
				g := c07random(r, n, c07density(r, n))
				if sparse {
					s = c08specS6(g)
				} else {
					s = c07specG6(g)
				}
			}
			for k := r.Intn(3); k > 0; k-- {
				s = c08mutate(r, s, sparse)
			}
			out(s)
		}
		// raw random strings, mostly in range
		for c := 0; c < cases/5; c++ {
			l := r.Intn(14)
			s := make([]byte, l)
			for i := range s {
				s[i] = byte(63 + r.Intn(64))
				if r.Intn(20) == 0 {
					s[i] = byte(r.Intn(256))
				}
			}
			if sparse && r.Intn(4) > 0 {
				s = append([]byte{':'}, s...)
			}
			out(s)
		}
	}
}

func init() {
	register(&Proto{Name: "g6d", Props: []string{"C08"}, Run: c08run(false), Gen: c08gen(false)})
	register(&Proto{Name: "s6d", Props: []string{"C08"}, Run: c08run(true), Gen: c08gen(true)})
}
