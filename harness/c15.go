package main

import (
	"fmt"
	"math/rand"
	"sort"
	"strconv"
	"strings"
	"time"

	"github.com/Tom-Johnston/mamba/itertools"
)

// Protocol it (property C15):  it <iterator> <parameters>
//
//	it comb n k | it colex n k | it mscomb k m0 m1 ... | it heap n | it lexperm n | it msperm f0 f1 ...
//	it topo n i0 j0 i1 j1 ...   (less(i,j) holds exactly for the listed pairs, all i < j)
//	it rpperm n PRED | it pattern n PRED | it parts n | it intparts n | it prod n0 n1 ... | it rpprod PRED n0 n1 ...
//
// PRED (a pure function of the prefix handed to the callback):
//
//	A always | N never | P0 / P1 last element even / odd | Q last element != len-1 | S<b> sum of the prefix <= b
//	H<salt>.<m>.<r> pseudo-random table: h = salt; h = (h*31+x+1) % 65521 over the prefix; accept iff h % m >= r
//	X<p1>.<p2>... explicit table: reject exactly the listed prefixes (one decimal digit per entry)
//
// Reply: the values yielded until the first Next() == false, separated by ';' (sorted as strings for the iterators
// without a documented order: mscomb, heap, topo, pattern), then '|', then the results of three more Next() calls
// ('F', or 'T<value>'), or 'cap' when c15Cap values were reached, or 'panic'.
//
// Oracle (independent of the Lean model): brute-force enumeration of the advertised family, each object exactly once,
// in the documented order where one is documented; the three extra calls must all be false; no panic.

const c15Cap = 20000

func c15ShowBlocks(p [][]int) string {
	parts := make([]string, len(p))
	for i, b := range p {
		parts[i] = showInts(b)
	}
	return "[" + strings.Join(parts, " ") + "]"
}

func c15Copy(a []int) []int { return append([]int{}, a...) }

// ---- predicates ----

func c15Pred(tok string) (func([]int) bool, bool) {
	if tok == "" {
		return nil, false
	}
	rest := tok[1:]
	switch tok[0] {
	case 'A':
		return func([]int) bool { return true }, rest == ""
	case 'N':
		return func([]int) bool { return false }, rest == ""
	case 'P':
		if rest != "0" && rest != "1" {
			return nil, false
		}
		r := int(rest[0] - '0')
		return func(p []int) bool { return len(p) == 0 || p[len(p)-1]%2 == r }, true
	case 'Q':
		return func(p []int) bool { return len(p) == 0 || p[len(p)-1] != len(p)-1 }, rest == ""
	case 'S':
		b, err := strconv.Atoi(rest)
		if err != nil {
			return nil, false
		}
		return func(p []int) bool {
			s := 0
			for _, v := range p {
				s += v
			}
			return s <= b
		}, true
	case 'H':
		f := strings.Split(rest, ".")
		if len(f) != 3 {
			return nil, false
		}
		salt, e1 := strconv.Atoi(f[0])
		m, e2 := strconv.Atoi(f[1])
		r, e3 := strconv.Atoi(f[2])
		if e1 != nil || e2 != nil || e3 != nil || m <= 0 || salt < 0 || r < 0 {
			return nil, false
		}
		return func(p []int) bool {
			h := salt
			for _, x := range p {
				h = (h*31 + x + 1) % 65521
			}
			return h%m >= r
		}, true
	case 'X':
		rej := map[string]bool{}
		if rest != "" {
			for _, w := range strings.Split(rest, ".") {
				for _, c := range w {
					if c < '0' || c > '9' {
						return nil, false
					}
				}
				rej[w] = true
			}
		}
		return func(p []int) bool {
			var b strings.Builder
			for _, v := range p {
				if v < 0 || v > 9 {
					return true
				}
				b.WriteByte(byte('0' + v))
			}
			return !rej[b.String()]
		}, true
	}
	return nil, false
}

// ---- brute-force families ----

func c15Subsets(n, k int) [][]int { // lexicographic
	res := [][]int{}
	cur := []int{}
	var rec func(start int)
	rec = func(start int) {
		if len(cur) == k {
			res = append(res, c15Copy(cur))
			return
		}
		for v := start; v < n; v++ {
			cur = append(cur, v)
			rec(v + 1)
			cur = cur[:len(cur)-1]
		}
	}
	rec(0)
	return res
}

func c15MultisetPerms(freq []int) [][]int { // lexicographic, each arrangement once
	res := [][]int{}
	left := c15Copy(freq)
	total := 0
	for _, f := range freq {
		total += f
	}
	cur := []int{}
	var rec func()
	rec = func() {
		if len(cur) == total {
			res = append(res, c15Copy(cur))
			return
		}
		for v := range left {
			if left[v] > 0 {
				left[v]--
				cur = append(cur, v)
				rec()
				cur = cur[:len(cur)-1]
				left[v]++
			}
		}
	}
	rec()
	return res
}

func c15Perms(n int) [][]int {
	f := make([]int, n)
	for i := range f {
		f[i] = 1
	}
	return c15MultisetPerms(f)
}

func c15Product(dims []int) [][]int { // lexicographic; only the first c15Cap+1 members (enough for every comparison made)
	res := [][]int{}
	cur := []int{}
	for _, d := range dims {
		if d < 1 {
			return res
		}
	}
	var rec func(i int)
	rec = func(i int) {
		if i == len(dims) {
			res = append(res, c15Copy(cur))
			return
		}
		for c := 0; c < dims[i] && len(res) <= c15Cap; c++ {
			cur = append(cur, c)
			rec(i + 1)
			cur = cur[:len(cur)-1]
		}
	}
	rec(0)
	return res
}

func c15FreqVectors(m []int, k int) [][]int {
	res := [][]int{}
	cur := []int{}
	var rec func(i, s int)
	rec = func(i, s int) {
		if i == len(m) {
			if s == k {
				res = append(res, c15Copy(cur))
			}
			return
		}
		for c := 0; c <= m[i]; c++ {
			cur = append(cur, c)
			rec(i+1, s+c)
			cur = cur[:len(cur)-1]
		}
	}
	rec(0, 0)
	return res
}

func c15RGS(n int) [][]int { // restricted growth strings of length n, lexicographic
	res := [][]int{}
	cur := []int{}
	var rec func(mx int)
	rec = func(mx int) {
		if len(cur) == n {
			res = append(res, c15Copy(cur))
			return
		}
		for v := 0; v <= mx+1; v++ {
			cur = append(cur, v)
			nm := mx
			if v > mx {
				nm = v
			}
			rec(nm)
			cur = cur[:len(cur)-1]
		}
	}
	rec(-1)
	return res
}

func c15IntPartitions(n int) [][]int { // non-increasing positive parts, reverse lexicographic
	res := [][]int{}
	cur := []int{}
	var rec func(rem, mx int)
	rec = func(rem, mx int) {
		if rem == 0 {
			res = append(res, c15Copy(cur))
			return
		}
		for p := mx; p >= 1; p-- {
			if p <= rem {
				cur = append(cur, p)
				rec(rem-p, p)
				cur = cur[:len(cur)-1]
			}
		}
	}
	rec(n, n)
	return res
}

func c15AllPrefixes(a []int, f func([]int) bool) bool {
	for l := 1; l <= len(a); l++ {
		if !f(c15Copy(a[:l])) {
			return false
		}
	}
	return true
}

func c15Standardise(p []int) []int {
	std := make([]int, len(p))
	for i := range p {
		c := 0
		for j := range p {
			if p[j] < p[i] {
				c++
			}
		}
		std[i] = c
	}
	return std
}

func c15Strs(x [][]int) []string {
	r := make([]string, len(x))
	for i := range x {
		r[i] = showInts(x[i])
	}
	return r
}

// canonical form of a set partition given as blocks: elements sorted inside blocks, blocks by least element.
func c15CanonBlocks(p [][]int) [][]int {
	q := make([][]int, len(p))
	for i := range p {
		q[i] = c15Copy(p[i])
		sort.Ints(q[i])
	}
	sort.SliceStable(q, func(i, j int) bool {
		if len(q[i]) == 0 || len(q[j]) == 0 {
			return len(q[i]) < len(q[j])
		}
		return q[i][0] < q[j][0]
	})
	return q
}

// c15Case: the iterator under test and its expected family.
type c15Case struct {
	next    func() bool
	value   func() string
	want    []string
	ordered bool
	check   func() string // extra per-value consistency check (may be nil)
	tags    []string
}

func c15Build(args []string) (*c15Case, bool) {
	if len(args) == 0 {
		return nil, false
	}
	ints := func(ss []string) ([]int, bool) {
		out := make([]int, len(ss))
		for i, s := range ss {
			v, err := strconv.Atoi(s)
			if err != nil {
				return nil, false
			}
			out[i] = v
		}
		return out, true
	}
	c := &c15Case{ordered: true}
	switch args[0] {
	case "comb", "colex":
		p, ok := ints(args[1:])
		if !ok || len(p) != 2 {
			return nil, false
		}
		n, k := p[0], p[1]
		subs := c15Subsets(n, k)
		if args[0] == "comb" {
			it := itertools.Combinations(n, k)
			c.next, c.value = it.Next, func() string { return showInts(it.Value()) }
		} else {
			it := itertools.CombinationsColex(n, k)
			c.next, c.value = it.Next, func() string { return showInts(it.Value()) }
			sort.SliceStable(subs, func(i, j int) bool {
				for t := k - 1; t >= 0; t-- {
					if subs[i][t] != subs[j][t] {
						return subs[i][t] < subs[j][t]
					}
				}
				return false
			})
		}
		c.want = c15Strs(subs)
		if k > n {
			c.tags = append(c.tags, "k>n")
		}
		if k == 0 {
			c.tags = append(c.tags, "k=0")
		}
	case "mscomb":
		p, ok := ints(args[1:])
		if !ok || len(p) < 1 {
			return nil, false
		}
		k, m := p[0], p[1:]
		it := itertools.MultisetCombinations(c15Copy(m), k)
		c.next = it.Next
		c.value = func() string { return showInts(it.FreqValue()) + "/" + showInts(it.Value()) }
		c.ordered = false
		for _, v := range c15FreqVectors(m, k) {
			ms := []int{}
			for i, f := range v {
				for j := 0; j < f; j++ {
					ms = append(ms, i)
				}
			}
			c.want = append(c.want, showInts(v)+"/"+showInts(ms))
		}
		for _, v := range m {
			if v == 0 {
				c.tags = append(c.tags, "zero-multiplicity")
				break
			}
		}
	case "heap", "lexperm":
		p, ok := ints(args[1:])
		if !ok || len(p) != 1 {
			return nil, false
		}
		if args[0] == "heap" {
			it := itertools.Permutations(p[0])
			c.next, c.value = it.Next, func() string { return showInts(it.Value()) }
			c.ordered = false
		} else {
			it := itertools.LexicographicPermutations(p[0])
			c.next, c.value = it.Next, func() string { return showInts(it.Value()) }
		}
		c.want = c15Strs(c15Perms(p[0]))
	case "msperm":
		f, ok := ints(args[1:])
		if !ok {
			return nil, false
		}
		it := itertools.MultisetPermutations(c15Copy(f))
		c.next, c.value = it.Next, func() string { return showInts(it.Value()) }
		c.want = c15Strs(c15MultisetPerms(f))
	case "topo":
		p, ok := ints(args[1:])
		if !ok || len(p) < 1 || len(p)%2 != 1 {
			return nil, false
		}
		n := p[0]
		type pr struct{ i, j int }
		rel := map[pr]bool{}
		for t := 1; t+1 < len(p); t += 2 {
			rel[pr{p[t], p[t+1]}] = true
		}
		it := itertools.TopologicalSorts(n, func(i, j int) bool { return rel[pr{i, j}] })
		c.next = it.Next
		c.value = func() string { return showInts(it.Value()) + "/" + showInts(it.InverseValue()) }
		c.ordered = false
		for _, q := range c15Perms(n) {
			pos := make([]int, n)
			for i, v := range q {
				pos[v] = i
			}
			ok := true
			for r := range rel {
				if pos[r.i] > pos[r.j] {
					ok = false
				}
			}
			if ok {
				c.want = append(c.want, showInts(q)+"/"+showInts(pos))
			}
		}
		c.tags = append(c.tags, fmt.Sprintf("topo-pairs-%d", len(rel)))
	case "rpperm", "pattern":
		if len(args) != 3 {
			return nil, false
		}
		n, err := strconv.Atoi(args[1])
		f, ok := c15Pred(args[2])
		if err != nil || !ok {
			return nil, false
		}
		if args[0] == "rpperm" {
			it := itertools.RestrictedPrefixPermutations(n, f)
			c.next, c.value = it.Next, func() string { return showInts(it.Value()) }
			for _, q := range c15Perms(n) {
				if c15AllPrefixes(q, f) {
					c.want = append(c.want, showInts(q))
				}
			}
		} else {
			it := itertools.PermutationsByPattern(n, f)
			c.next, c.value = it.Next, func() string { return showInts(it.Value()) }
			c.ordered = false
			for _, q := range c15Perms(n) {
				ok := true
				for l := 1; l <= n && ok; l++ {
					ok = f(c15Standardise(q[:l]))
				}
				if ok {
					c.want = append(c.want, showInts(q))
				}
			}
		}
		c.tags = append(c.tags, "pred-"+args[2][:1])
	case "parts":
		p, ok := ints(args[1:])
		if !ok || len(p) != 1 {
			return nil, false
		}
		it := itertools.Partitions(p[0])
		c.next = it.Next
		c.value = func() string { return c15ShowBlocks(c15CanonBlocks(it.Value())) }
		for _, rgs := range c15RGS(p[0]) {
			mx := -1
			for _, v := range rgs {
				if v > mx {
					mx = v
				}
			}
			blocks := make([][]int, mx+1)
			for i, v := range rgs {
				blocks[v] = append(blocks[v], i)
			}
			c.want = append(c.want, c15ShowBlocks(blocks))
		}
	case "intparts":
		p, ok := ints(args[1:])
		if !ok || len(p) != 1 {
			return nil, false
		}
		it := itertools.IntegerPartitions(p[0])
		c.next, c.value = it.Next, func() string { return showInts(it.Value()) }
		c.want = c15Strs(c15IntPartitions(p[0]))
	case "prod":
		d, ok := ints(args[1:])
		if !ok {
			return nil, false
		}
		buf := c15Copy(d)
		it := itertools.Product(buf...)
		c15Scramble(buf) // the family is the one named at the call: the caller's slice may change afterwards
		c.next, c.value = it.Next, func() string { return showInts(it.Value()) }
		c.want = c15Strs(c15Product(d))
	case "rpprod":
		if len(args) < 2 {
			return nil, false
		}
		f, ok := c15Pred(args[1])
		d, ok2 := ints(args[2:])
		if !ok || !ok2 {
			return nil, false
		}
		buf := c15Copy(d)
		it := itertools.RestrictedPrefixProduct(f, buf...)
		c15Scramble(buf)
		c.next, c.value = it.Next, func() string { return showInts(it.Value()) }
		for _, q := range c15Product(d) {
			if c15AllPrefixes(q, f) {
				c.want = append(c.want, showInts(q))
			}
		}
		c.tags = append(c.tags, "pred-"+args[1][:1])
	default:
		return nil, false
	}
	return c, true
}

// A Next() that never returns cannot be interrupted; the framework's watchdog abandons the goroutine after its
// timeout and carries on. To keep a run against a broken tree short, c15Run uses its own (much shorter) deadline and,
// after two requests for the same iterator have timed out, answers further requests for that iterator with "skipped"
// (a divergence from the model, not an oracle failure: the replay is one of the requests that actually timed out).
var c15Timeouts = map[string]int{}

func c15Run(args []string) Result {
	kind := ""
	if len(args) > 0 {
		kind = args[0]
	}
	if c15Timeouts[kind] >= 2 {
		return Result{Out: "skipped-after-timeouts", Tags: []string{"skipped"}}
	}
	done := make(chan Result, 1)
	go func() {
		defer func() {
			if e := recover(); e != nil {
				done <- Result{Out: "|panic", Oracle: fmt.Sprint("panic: ", e), Tags: []string{"panic"}}
			}
		}()
		done <- c15RunInner(args)
	}()
	select {
	case r := <-done:
		return r
	case <-time.After(3 * time.Second):
		c15Timeouts[kind]++
		return Result{Out: "timeout", Oracle: "the iterator did not finish within 3s (a Next() call does not return, or far more values than the cap)", Tags: []string{"timeout"}}
	}
}

func c15RunInner(args []string) Result {
	var c *c15Case
	var ok bool
	if guard(func() string { c, ok = c15Build(args); return "" }) == "panic" {
		return Result{Out: "|panic", Oracle: "the constructor panicked", Tags: []string{"panic"}}
	}
	if !ok {
		return Result{Out: "bad-op"}
	}
	vals := []string{}
	tail := ""
	oracle := ""
	status := guard(func() string {
		capped := false
		for c.next() {
			vals = append(vals, c.value())
			if len(vals) >= c15Cap {
				capped = true
				break
			}
		}
		if capped {
			tail = "cap"
			return ""
		}
		ex := make([]string, 3)
		for i := 0; i < 3; i++ {
			if c.next() {
				ex[i] = "T" + c.value()
				if oracle == "" {
					oracle = fmt.Sprintf("Next() returned true again (value %s) %d call(s) after it had reported exhaustion", c.value(), i+1)
				}
			} else {
				ex[i] = "F"
			}
		}
		tail = strings.Join(ex, " ")
		return ""
	})
	tags := append([]string{args[0]}, c.tags...)
	if status == "panic" {
		tail = "panic"
		oracle = fmt.Sprintf("panic after %d values", len(vals))
		tags = append(tags, "panic")
	}
	got := vals
	if !c.ordered {
		got = append([]string{}, vals...)
		sort.Strings(got)
	}
	out := strings.Join(got, ";") + "|" + tail
	if tail == "cap" {
		if len(c.want) < c15Cap {
			oracle = fmt.Sprintf("yielded %d values, the family has %d members", len(vals), len(c.want))
		}
		return Result{Out: out, Oracle: oracle, Tags: append(tags, "cap")}
	}
	if oracle == "" {
		want := c.want
		if !c.ordered {
			want = append([]string{}, want...)
			sort.Strings(want)
		}
		what := "in the documented order"
		if !c.ordered {
			what = "as a multiset"
		}
		if len(got) != len(want) {
			oracle = fmt.Sprintf("yielded %d values, the family has %d members", len(got), len(want))
		}
		for i := 0; i < len(got) && i < len(want) && oracle == ""; i++ {
			if got[i] != want[i] {
				oracle = fmt.Sprintf("value %d (%s) is %s, expected %s", i, what, got[i], want[i])
			}
		}
		if oracle != "" && len(got) != len(want) {
			// name a concrete missing or surplus object
			seen := map[string]int{}
			for _, g := range got {
				seen[g]++
			}
			for _, w := range want {
				if seen[w] == 0 {
					oracle += "; missing " + w
					break
				}
				seen[w]--
			}
			wm := map[string]int{}
			for _, w := range want {
				wm[w]++
			}
			for _, g := range got {
				if wm[g] == 0 {
					oracle += "; not in the family or repeated: " + g
					break
				}
				wm[g]--
			}
		}
	}
	if len(c.want) >= 3 {
		tags = append(tags, "nontrivial")
	}
	if len(c.want) == 0 {
		tags = append(tags, "empty-family")
	}
	return Result{Out: out, Oracle: oracle, Tags: tags}
}

// ---- generator ----

func c15PredTok(r *rand.Rand, maxVal, maxLen int) string {
	switch r.Intn(10) {
	case 0:
		return "A"
	case 1:
		if r.Intn(3) == 0 {
			return "N"
		}
		return "A"
	case 2:
		return "P" + strconv.Itoa(r.Intn(2))
	case 3:
		return "Q"
	case 4:
		return "S" + strconv.Itoa(r.Intn(maxVal*maxLen/2+2)+maxVal*maxLen/4)
	case 5, 6, 7:
		m := 3 + r.Intn(8)
		rj := 1
		if r.Intn(4) == 0 {
			rj = 1 + r.Intn(m/2)
		}
		return fmt.Sprintf("H%d.%d.%d", r.Intn(60000), m, rj)
	default:
		cnt := r.Intn(5)
		ws := []string{}
		for i := 0; i < cnt; i++ {
			l := 1
			if maxLen > 1 {
				l += r.Intn(maxLen)
			}
			var b strings.Builder
			for j := 0; j < l; j++ {
				b.WriteByte(byte('0' + r.Intn(maxVal+1)))
			}
			ws = append(ws, b.String())
		}
		return "X" + strings.Join(ws, ".")
	}
}

// small sizes mostly, the largest allowed size now and then
func c15Size(r *rand.Rand, max int) int {
	switch r.Intn(8) {
	case 0:
		return max
	case 1, 2, 3:
		if max >= 4 {
			return max - 1 - r.Intn(3)
		}
	}
	return r.Intn(max)
}

func c15Gen(r *rand.Rand, tier string, emit func(string)) {
	// boundary / exhaustive small part
	for n := 0; n <= 7; n++ {
		for k := 0; k <= n+2; k++ {
			emit(fmt.Sprintf("it comb %d %d", n, k))
			emit(fmt.Sprintf("it colex %d %d", n, k))
		}
		emit(fmt.Sprintf("it heap %d", n))
		emit(fmt.Sprintf("it lexperm %d", n))
		for _, p := range []string{"A", "N", "P0", "P1", "Q", "S" + strconv.Itoa(n)} {
			emit(fmt.Sprintf("it rpperm %d %s", n, p))
			emit(fmt.Sprintf("it pattern %d %s", n, p))
		}
		emit(fmt.Sprintf("it topo %d", n))
		if n >= 1 {
			emit(fmt.Sprintf("it parts %d", n))
		}
	}
	emit("it parts 8")
	for n := 0; n <= 16; n++ {
		emit(fmt.Sprintf("it intparts %d", n))
	}
	for _, l := range []string{"", " 0", " 1", " 2", " 0 0", " 1 1", " 2 0", " 0 2", " 3 1 2", " 1 1 1", " 2 0 2", " 2 2 2 2", " 1 3", " 4 1"} {
		emit("it prod" + l)
		emit("it rpprod A" + l)
		emit("it rpprod N" + l)
		emit("it rpprod P0" + l)
		emit("it msperm" + l)
		for k := 0; k <= 4; k++ {
			emit(fmt.Sprintf("it mscomb %d%s", k, l))
		}
	}
	// factors whose product does not fit an int (only the first c15Cap members are enumerated on both sides)
	for _, l := range []string{" 4611686018427387904 4", " 4294967296 4294967296", " 2097152 2097152 4194304", " 3 9223372036854775807", " 9223372036854775807 2 0"} {
		emit("it prod" + l)
		emit("it rpprod A" + l)
	}
	cases := 4000
	if tier == "thorough" {
		cases = 60000
	}
	for c := 0; c < cases; c++ {
		switch r.Intn(12) {
		case 0: // topo with random sub-orders of the natural order
			n := c15Size(r, 7)
			var b strings.Builder
			fmt.Fprintf(&b, "it topo %d", n)
			dens := 1 + r.Intn(6)
			for i := 0; i < n; i++ {
				for j := i + 1; j < n; j++ {
					if r.Intn(12) < dens {
						fmt.Fprintf(&b, " %d %d", i, j)
					}
				}
			}
			emit(b.String())
		case 1, 2:
			n := c15Size(r, 7)
			emit(fmt.Sprintf("it rpperm %d %s", n, c15PredTok(r, n, n)))
		case 3, 4:
			n := c15Size(r, 7)
			emit(fmt.Sprintf("it pattern %d %s", n, c15PredTok(r, n, n)))
		case 5, 6, 7: // rpprod
			l := r.Intn(6)
			var b strings.Builder
			for i := 0; i < l; i++ {
				v := 1 + r.Intn(4)
				if r.Intn(12) == 0 {
					v = 0
				}
				fmt.Fprintf(&b, " %d", v)
			}
			emit("it rpprod " + c15PredTok(r, 4, l+1) + b.String())
		case 8: // prod
			l := r.Intn(7)
			var b strings.Builder
			for i := 0; i < l; i++ {
				v := 1 + r.Intn(4)
				if r.Intn(10) == 0 {
					v = 0
				}
				fmt.Fprintf(&b, " %d", v)
			}
			emit("it prod" + b.String())
		case 9, 10: // mscomb
			l := r.Intn(7)
			sum := 0
			var b strings.Builder
			for i := 0; i < l; i++ {
				v := r.Intn(4)
				sum += v
				fmt.Fprintf(&b, " %d", v)
			}
			emit(fmt.Sprintf("it mscomb %d%s", r.Intn(sum+3), b.String()))
		default: // msperm with at most 8 elements
			l := r.Intn(6)
			sum := 0
			var b strings.Builder
			for i := 0; i < l; i++ {
				v := r.Intn(4)
				if sum+v > 8 {
					v = 0
				}
				sum += v
				fmt.Fprintf(&b, " %d", v)
			}
			emit("it msperm" + b.String())
		}
	}
}

func init() {
	register(&Proto{Name: "it", Props: []string{"C15"}, Run: c15Run, Gen: c15Gen})
}

// c15Scramble overwrites a slice that was handed to a constructor (which documents that it keeps its own copy).
func c15Scramble(x []int) {
	for i := range x {
		x[i] = x[i]/2 + 1 - x[i]%2
	}
}
