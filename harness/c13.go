package main

import (
	"bytes"
	"encoding/hex"
	"fmt"
	"hash/fnv"
	"math/rand"
	"reflect"
	"sort"
	"strings"

	"github.com/Tom-Johnston/mamba/dawg"
)

// Protocol dsearch (property C13):
//
//	dsearch x<hex> x<hex> ... / <searcher> ; <searcher> ... / <searcher> ; ... / ...
//
// first group = the word list (strictly increasing; "x" alone is the empty word), then one "/"-group per query;
// a query is a ";"-separated list of searchers ("p <blankhex> x<patternhex>", "a <blankhex> x<anagramhex>";
// an empty group = Search() without searchers), all given to ONE Search call.
// Reply: n=<NumberOfWords> / r1=[x<hex>:<id> ...];r2=[...] / ...   (r2 = a second Search with the same searcher
// objects; "panic" for a query whose Search panics).
//
// Oracle (independent of the Lean model), per query:
//   - r1 = [(w, position of w) | w in the word list in order, every searcher's condition holds for w], with
//     "pattern matches w" = same length and every position equal or blank, "anagram matches w" = same length and
//     sum over letters c of max(0, #c in w - #c among the non-blank letters) <= number of blanks;
//   - r2 = r1 (searchers back in a state that behaves like the initial one); where the unexported fields can be read
//     by reflection: PatternSearcher.index unchanged, AnagramSearcher blanks / len(currPath) / per-letter totals of
//     counts unchanged;
//   - Lookup of every stored word, NumberOfWords and (when it works) GobEncode are the same before and after.

type c13Searcher struct {
	kind  byte // 'p' or 'a'
	blank byte
	str   []byte
}

func c13ParseWord(s string) ([]byte, bool) {
	if len(s) == 0 || s[0] != 'x' {
		return nil, false
	}
	b, err := hex.DecodeString(s[1:])
	if err != nil || strings.ToLower(s[1:]) != s[1:] {
		return nil, false
	}
	return b, true
}

func c13ShowWord(w []byte) string { return "x" + hex.EncodeToString(w) }

func c13ShowRes(ws [][]byte, ids []int) string {
	var b strings.Builder
	b.WriteByte('[')
	for i := range ws {
		if i > 0 {
			b.WriteByte(' ')
		}
		fmt.Fprintf(&b, "%s:", c13ShowWord(ws[i]))
		if i < len(ids) {
			fmt.Fprintf(&b, "%d", ids[i])
		} else {
			b.WriteString("noid")
		}
	}
	for i := len(ws); i < len(ids); i++ {
		fmt.Fprintf(&b, " noword:%d", ids[i])
	}
	b.WriteByte(']')
	return b.String()
}

func c13PatternMatches(pat []byte, blank byte, w []byte) bool {
	if len(pat) != len(w) {
		return false
	}
	for i := range w {
		if pat[i] != blank && pat[i] != w[i] {
			return false
		}
	}
	return true
}

func c13AnagramMatches(an []byte, blank byte, w []byte) bool {
	if len(an) != len(w) {
		return false
	}
	var have, want [256]int
	blanks := 0
	for _, c := range an {
		if c == blank {
			blanks++
		} else {
			have[c]++
		}
	}
	for _, c := range w {
		want[c]++
	}
	need := 0
	for c := 0; c < 256; c++ {
		if want[c] > have[c] {
			need += want[c] - have[c]
		}
	}
	return need <= blanks
}

// c13State reads the observable state of a searcher through reflection (unexported fields can be read, not set).
// ok=false when the struct no longer has the expected fields (then the state comparison is skipped).
func c13State(s dawg.Searcher) (st string, ok bool) {
	defer func() {
		if recover() != nil {
			st, ok = "", false
		}
	}()
	v := reflect.ValueOf(s)
	if v.Kind() == reflect.Ptr {
		v = v.Elem()
	}
	switch s.(type) {
	case *dawg.PatternSearcher:
		f := v.FieldByName("index")
		if !f.IsValid() {
			return "", false
		}
		return fmt.Sprintf("index=%d", f.Int()), true
	case *dawg.AnagramSearcher:
		bl, cp, cs := v.FieldByName("blanks"), v.FieldByName("currPath"), v.FieldByName("counts")
		if !bl.IsValid() || !cp.IsValid() || !cs.IsValid() {
			return "", false
		}
		tot := map[uint64]int64{}
		for i := 0; i < cs.Len(); i++ {
			e := cs.Index(i)
			l, c := e.FieldByName("letter"), e.FieldByName("count")
			if !l.IsValid() || !c.IsValid() {
				return "", false
			}
			tot[l.Uint()] += c.Int()
		}
		keys := []int{}
		for k := range tot {
			keys = append(keys, int(k))
		}
		sort.Ints(keys)
		var b strings.Builder
		fmt.Fprintf(&b, "blanks=%d path=%d", bl.Int(), cp.Len())
		for _, k := range keys {
			fmt.Fprintf(&b, " %02x:%d", k, tot[uint64(k)])
		}
		return b.String(), true
	}
	return "", false
}

func c13Run(args []string) Result {
	groups := splitTok(args, "/")
	words := [][]byte{}
	for _, t := range groups[0] {
		w, ok := c13ParseWord(t)
		if !ok {
			return Result{Out: "bad-op"}
		}
		words = append(words, w)
	}
	queries := [][]c13Searcher{}
	for _, g := range groups[1:] {
		q := []c13Searcher{}
		if len(g) > 0 {
			for _, sg := range splitTok(g, ";") {
				if len(sg) != 3 || (sg[0] != "p" && sg[0] != "a") {
					return Result{Out: "bad-op"}
				}
				bl, err := hex.DecodeString(sg[1])
				str, ok := c13ParseWord(sg[2])
				if err != nil || len(bl) != 1 || !ok {
					return Result{Out: "bad-op"}
				}
				q = append(q, c13Searcher{kind: sg[0][0], blank: bl[0], str: str})
			}
		}
		queries = append(queries, q)
	}
	// the library keeps the slices it is given: hand it copies
	cp := make([][]byte, len(words))
	for i, w := range words {
		cp[i] = append([]byte{}, w...)
	}
	d, err := dawg.New(cp)
	if err != nil {
		return Result{Out: "err"}
	}
	builtWithRejects := false
	if c13Seed(args)%2 == 1 && len(words) > 0 {
		// "every Dawg": the same word set reached through a history with refused Adds (a repeated word, an earlier word)
		// interleaved. C12 says such Adds leave the Dawg alone; if one is accepted here the plain Dawg above is kept.
		var db dawg.Builder
		okHist := true
		for i, w := range words {
			if db.Add(append([]byte{}, w...)) != nil {
				okHist = false
				break
			}
			if db.Add(append([]byte{}, w...)) == nil {
				okHist = false
				break
			}
			if i > 0 && i%2 == 1 {
				if db.Add(append([]byte{}, words[i/2]...)) == nil {
					okHist = false
					break
				}
			}
		}
		if okHist {
			if d2, err2 := db.Finish(); err2 == nil && d2 != nil {
				d = d2
				builtWithRejects = true
			}
		}
	}
	throughGob := false
	if (c13Seed(args)>>1)%3 == 0 {
		// "every Dawg": the same automaton after a GobEncode/GobDecode round trip into a receiver that held (and had
		// encoded) another automaton before. C14 says this is the same automaton; if the round trip fails the Dawg above is kept.
		guard(func() string {
			enc, e := d.GobEncode()
			if e != nil || c14Unsafe(enc) != "" {
				return ""
			}
			old, e := dawg.New([][]byte{{}, {'a'}})
			if e != nil {
				return ""
			}
			oe, e := old.GobEncode()
			d3 := new(dawg.Dawg)
			if e != nil || c14Unsafe(oe) != "" || d3.GobDecode(oe) != nil {
				return ""
			}
			if _, e := d3.GobEncode(); e != nil {
				return ""
			}
			if d3.GobDecode(enc) != nil {
				return ""
			}
			d = d3
			throughGob = true
			return ""
		})
	}
	oracle := ""
	fail := func(f string, a ...interface{}) {
		if oracle == "" {
			oracle = fmt.Sprintf(f, a...)
		}
	}
	tags := map[string]bool{}
	if throughGob {
		tags["through-gob-into-used-receiver"] = true
	}
	if builtWithRejects {
		tags["built-with-refused-adds"] = true
	}
	snapshot := func() string {
		var b strings.Builder
		fmt.Fprintf(&b, "n=%d", d.NumberOfWords())
		for _, w := range words {
			id, ok := d.Lookup(w)
			fmt.Fprintf(&b, " %d,%v", id, ok)
		}
		b.WriteString(guard(func() string {
			enc, err := d.GobEncode()
			if err != nil {
				return " gob-error"
			}
			return " " + hex.EncodeToString(enc)
		}))
		return b.String()
	}
	before := snapshot()
	out := []string{fmt.Sprintf("n=%d", d.NumberOfWords())}
	nontrivial := false
	for qi, q := range queries {
		kinds := ""
		for _, s := range q {
			kinds += string(s.kind)
		}
		tags["q:"+kinds] = true
		// expected result by the definition
		var expW [][]byte
		var expI []int
		for i, w := range words {
			all := true
			for _, s := range q {
				if s.kind == 'p' {
					all = all && c13PatternMatches(s.str, s.blank, w)
				} else {
					all = all && c13AnagramMatches(s.str, s.blank, w)
				}
			}
			if all {
				expW = append(expW, w)
				expI = append(expI, i)
			}
		}
		exp := c13ShowRes(expW, expI)
		rep := guard(func() string {
			ss := make([]dawg.Searcher, len(q))
			bufs := map[string][]byte{} // searchers of one query given the same string share one caller-side buffer
			for i, s := range q {
				str, shared := bufs[string(s.str)]
				if !shared {
					str = append([]byte{}, s.str...)
					bufs[string(s.str)] = str
				} else {
					tags["shared-query-buffer"] = true
				}
				if s.kind == 'p' {
					ss[i] = dawg.NewPatternSearcher(str, s.blank)
				} else {
					ss[i] = dawg.NewAnagramSearcher(str, s.blank)
					if len(str) > 12 {
						tags["anagram>12"] = true
					}
				}
			}
			st0 := make([]string, len(ss))
			ok0 := make([]bool, len(ss))
			for i := range ss {
				st0[i], ok0[i] = c13State(ss[i])
			}
			w1, i1 := d.Search(ss...)
			r1 := c13ShowRes(w1, i1)
			for i := range ss {
				st1, ok1 := c13State(ss[i])
				if ok0[i] && ok1 {
					tags["state-compared"] = true
					if st0[i] != st1 {
						fail("query %d: searcher %d (%c %02x %s) is not back in its initial state after Search: before {%s} after {%s}", qi, i, q[i].kind, q[i].blank, c13ShowWord(q[i].str), st0[i], st1)
					}
				} else {
					tags["state-unreadable"] = true
				}
			}
			w2, i2 := d.Search(ss...)
			r2 := c13ShowRes(w2, i2)
			if r1 != exp {
				fail("query %d: Search returned %s but the matching words with their ranks are %s", qi, r1, exp)
			}
			if r2 != r1 {
				fail("query %d: repeating the Search with the same searchers gave %s, first time %s", qi, r2, r1)
			}
			return "r1=" + r1 + ";r2=" + r2
		})
		if rep == "panic" {
			fail("query %d: Search panicked (expected %s)", qi, exp)
			tags["panic"] = true
		}
		out = append(out, rep)
		if len(q) > 0 && len(expW) > 0 && len(expW) < len(words) {
			nontrivial = true
		}
		switch {
		case len(expW) == 0:
			tags["res:none"] = true
		case len(expW) == len(words):
			tags["res:all"] = true
		default:
			tags["res:some"] = true
		}
	}
	if after := snapshot(); after != before {
		fail("the Dawg changed during Search: NumberOfWords/Lookup/GobEncode before {%.200s} after {%.200s}", before, after)
	}
	for i, w := range words {
		if id, ok := d.Lookup(w); !ok || id != i {
			tags["lookup-wrong"] = true // C12's business; recorded only
		}
	}
	tl := []string{}
	for t := range tags {
		tl = append(tl, t)
	}
	if nontrivial {
		tl = append(tl, "nontrivial")
	}
	return Result{Out: strings.Join(out, " / "), Oracle: oracle, Tags: tl}
}

// ---- generators ----

func c13WordSet(r *rand.Rand, alpha []byte, maxLen, count int) [][]byte {
	m := map[string]bool{}
	for i := 0; i < count; i++ {
		l := r.Intn(maxLen + 1)
		b := make([]byte, l)
		for j := range b {
			b[j] = alpha[r.Intn(len(alpha))]
		}
		m[string(b)] = true
	}
	ws := make([][]byte, 0, len(m))
	for w := range m {
		ws = append(ws, []byte(w))
	}
	sort.Slice(ws, func(i, j int) bool { return bytes.Compare(ws[i], ws[j]) < 0 })
	return ws
}

func c13WordsTok(ws [][]byte) string {
	parts := make([]string, len(ws))
	for i, w := range ws {
		parts[i] = c13ShowWord(w)
	}
	return strings.Join(parts, " ")
}

func c13SearcherTok(s c13Searcher) string {
	return fmt.Sprintf("%c %02x %s", s.kind, s.blank, c13ShowWord(s.str))
}

func c13Line(ws [][]byte, queries [][]c13Searcher) string {
	var b strings.Builder
	b.WriteString("dsearch")
	if len(ws) > 0 {
		b.WriteString(" " + c13WordsTok(ws))
	}
	for _, q := range queries {
		b.WriteString(" /")
		for i, s := range q {
			if i > 0 {
				b.WriteString(" ;")
			}
			b.WriteString(" " + c13SearcherTok(s))
		}
	}
	return b.String()
}

// all strings over sym of length <= maxLen
func c13AllStrings(sym []byte, maxLen int) [][]byte {
	out := [][]byte{{}}
	level := [][]byte{{}}
	for l := 1; l <= maxLen; l++ {
		next := [][]byte{}
		for _, p := range level {
			for _, c := range sym {
				q := append(append([]byte{}, p...), c)
				next = append(next, q)
			}
		}
		out = append(out, next...)
		level = next
	}
	return out
}

// a searcher derived from word w (so that hits are likely): some positions blanked / shuffled / perturbed
func c13Derived(r *rand.Rand, w []byte, alpha []byte, blank byte) c13Searcher {
	s := append([]byte{}, w...)
	kind := byte('p')
	if r.Intn(2) == 0 {
		kind = 'a'
		r.Shuffle(len(s), func(i, j int) { s[i], s[j] = s[j], s[i] })
	}
	for j := range s {
		switch p := r.Intn(12); {
		case p < 3:
			s[j] = blank
		case p == 3:
			s[j] = alpha[r.Intn(len(alpha))]
		case p == 4 && r.Intn(3) == 0:
			s[j] = 'z' // foreign letter
		}
	}
	switch r.Intn(14) {
	case 0:
		s = append(s, blank)
	case 1:
		if len(s) > 0 {
			s = s[:len(s)-1]
		}
	case 2:
		s = append(s, alpha[r.Intn(len(alpha))])
	}
	return c13Searcher{kind: kind, blank: blank, str: s}
}

func c13Gen(r *rand.Rand, tier string, emit func(string)) {
	thorough := tier == "thorough"
	P := func(b byte, s string) c13Searcher { return c13Searcher{'p', b, []byte(s)} }
	A := func(b byte, s string) c13Searcher { return c13Searcher{'a', b, []byte(s)} }
	W := func(ss ...string) [][]byte {
		out := [][]byte{}
		for _, s := range ss {
			out = append(out, []byte(s))
		}
		return out
	}
	Q := func(ss ...c13Searcher) []c13Searcher { return ss }
	// ---- boundary cases
	emit("dsearch")
	emit("dsearch /")
	emit(c13Line(nil, [][]c13Searcher{Q(P('?', "")), Q(A('?', "")), Q(P('?', "a")), Q(A('?', "?")), Q(P('?', ""), A('?', ""))}))
	emit(c13Line(W(""), [][]c13Searcher{Q(), Q(P('?', "")), Q(A('?', "")), Q(P('?', "?")), Q(A('?', "?")), Q(A('?', "a"))}))
	emit(c13Line(W("", "a"), [][]c13Searcher{Q(), Q(P('?', "")), Q(A('?', "")), Q(P('?', "?")), Q(A('?', "?")), Q(A('?', "a")), Q(P('?', "a")), Q(P('?', "b")), Q(A('?', "b"))}))
	tw := W("a", "aa", "aab", "ab", "aba", "abb", "b", "ba", "baa", "bab", "bb")
	emit(c13Line(tw, [][]c13Searcher{Q(), Q(P('?', "")), Q(P('?', "a?")), Q(P('?', "?b")), Q(P('?', "???")), Q(P('?', "????")), Q(P('?', "a?b?")), Q(P('?', "z")), Q(P('?', "az")),
		Q(A('?', "aa")), Q(A('?', "aab")), Q(A('?', "aba")), Q(A('?', "baa")), Q(A('?', "a?")), Q(A('?', "?a")), Q(A('?', "??")), Q(A('?', "???")), Q(A('?', "b?a")), Q(A('?', "zab")), Q(A('?', "aaaa")), Q(A('?', "bbbbbb"))}))
	// repeated letters, blank equal to a letter of the words, blank in the words
	emit(c13Line(tw, [][]c13Searcher{Q(P('a', "a?")), Q(P('a', "ab")), Q(P('a', "aa")), Q(A('a', "ab")), Q(A('a', "aab")), Q(A('b', "bba")), Q(A('a', "aaa")), Q(P('b', "bbb"))}))
	// combinations
	emit(c13Line(tw, [][]c13Searcher{Q(P('?', "a??"), A('?', "ab?")), Q(A('?', "ab?"), P('?', "a??")), Q(P('?', "??"), P('?', "?a")), Q(A('?', "a??"), A('?', "b??")), Q(P('?', "???"), A('?', "aab"), P('?', "?a?")), Q(P('?', "a"), P('?', "aa")), Q(A('?', "ab"), P('?', "???"))}))
	// anagram with two equal leading letters / unsorted by the comparator quirk / longer than 12
	long := W("aaaaaaaaaaaaaa", "aaaaaaabbbbbbb", "abababababababab", "abcabcabcabcabc", "bbbbbbbbbbbbbaaa", "cbacbacbacbacba")
	emit(c13Line(long, [][]c13Searcher{Q(A('?', "abababababababab")), Q(A('?', "bbbbbbbaaaaaaa")), Q(A('?', "cccccbbbbbaaaaa")), Q(A('?', "a?a?a?a?a?a?a?")), Q(A('?', "aaabbbbbbbbbbbbb")), Q(A('?', "???????????????")), Q(P('?', "a?????????????")), Q(A('?', "bcabcabcabcabca"), P('?', "c??????????????"))}))
	// full byte range
	emit(c13Line([][]byte{{}, {0}, {0, 0}, {0, 255}, {1}, {127}, {128}, {255}, {255, 0}, {255, 255}}, [][]c13Searcher{Q(), Q(c13Searcher{'p', 0, []byte{0}}), Q(c13Searcher{'p', 0, []byte{0, 0}}), Q(c13Searcher{'p', 255, []byte{255, 0}}), Q(c13Searcher{'a', 0, []byte{255, 0}}), Q(c13Searcher{'a', 255, []byte{255, 0}}), Q(c13Searcher{'a', 7, []byte{0, 255}}), Q(c13Searcher{'a', 7, []byte{128}})}))

	// ---- exhaustive sweeps: all patterns / anagrams (as byte sequences) of length <= L over alphabet + blank + foreign
	sweeps := 3
	if thorough {
		sweeps = 12
	}
	for sw := 0; sw < sweeps; sw++ {
		k := 1 + sw%3
		L := 5
		if k == 3 {
			L = 4
		}
		if thorough && sw >= 9 {
			k, L = 4, 4
		}
		alpha := []byte("abcd")[:k]
		ws := c13WordSet(r, alpha, 2+r.Intn(4), 4+r.Intn(30))
		sym := append(append([]byte{}, alpha...), '?', 'z')
		all := c13AllStrings(sym, L)
		for _, kind := range []byte{'p', 'a'} {
			for i := 0; i < len(all); i += 48 {
				qs := [][]c13Searcher{}
				for j := i; j < i+48 && j < len(all); j++ {
					qs = append(qs, Q(c13Searcher{kind, '?', all[j]}))
				}
				emit(c13Line(ws, qs))
			}
		}
		// all ordered pairs of short searchers
		short := c13AllStrings(sym, 2)
		qs := [][]c13Searcher{}
		for _, a := range short {
			for _, b := range short {
				if len(a) != len(b) {
					continue
				}
				for _, kk := range []string{"pp", "pa", "ap", "aa"} {
					qs = append(qs, Q(c13Searcher{kk[0], '?', a}, c13Searcher{kk[1], '?', b}))
					if len(qs) == 48 {
						emit(c13Line(ws, qs))
						qs = nil
					}
				}
			}
		}
		if len(qs) > 0 {
			emit(c13Line(ws, qs))
		}
	}

	// ---- random single-query and few-query lines
	cases := 5000
	if thorough {
		cases = 120000
	}
	for c := 0; c < cases; c++ {
		var alpha []byte
		maxLen, count := 1+r.Intn(6), 1+r.Intn(30)
		switch k := r.Intn(12); {
		case k >= 10: // deep, densely shared: refusals by a later searcher happen far from the root
			alpha = []byte("ab")
			maxLen, count = 5+r.Intn(5), 20+r.Intn(60)
		case k < 6:
			alpha = []byte("abcd")[:1+r.Intn(4)]
		case k < 8:
			alpha = make([]byte, 2+r.Intn(6))
			for i := range alpha {
				alpha[i] = byte(r.Intn(256))
			}
		case k == 8: // long words over a tiny alphabet (anagrams longer than 12: sort.Slice leaves insertion sort)
			alpha = []byte("abc")[:1+r.Intn(3)]
			maxLen, count = 10+r.Intn(10), 1+r.Intn(12)
		default: // wide branching
			alpha = make([]byte, 256)
			for i := range alpha {
				alpha[i] = byte(i)
			}
			maxLen, count = 1+r.Intn(3), 1+r.Intn(200)
		}
		ws := c13WordSet(r, alpha, maxLen, count)
		blank := byte('?')
		switch r.Intn(8) {
		case 0:
			blank = alpha[r.Intn(len(alpha))] // the blank is a letter of the words
		case 1:
			blank = byte(r.Intn(256))
		}
		nq := 1
		if r.Intn(4) == 0 {
			nq = 2 + r.Intn(4)
		}
		qs := [][]c13Searcher{}
		for q := 0; q < nq; q++ {
			ns := 1
			switch p := r.Intn(10); {
			case p < 1:
				ns = 0
			case p < 6:
				ns = 1
			case p < 9:
				ns = 2
			default:
				ns = 3
			}
			base := ws[r.Intn(len(ws))]
			ss := []c13Searcher{}
			for i := 0; i < ns; i++ {
				if r.Intn(8) == 0 { // unrelated searcher
					base2 := c13WordSet(r, alpha, maxLen, 1)[0]
					ss = append(ss, c13Derived(r, base2, alpha, blank))
				} else {
					ss = append(ss, c13Derived(r, base, alpha, blank))
				}
			}
			qs = append(qs, ss)
		}
		emit(c13Line(ws, qs))
	}
}

func init() {
	register(&Proto{Name: "dsearch", Props: []string{"C13"}, Run: c13Run, Gen: c13Gen})
}

// c13Seed is a hash of the request line: per-request choices of the harness that the Lean side does not see.
func c13Seed(args []string) uint64 {
	h := fnv.New64a()
	for _, a := range args {
		h.Write([]byte(a))
		h.Write([]byte{' '})
	}
	return h.Sum64() >> 3
}
