package main

import (
	"fmt"
	"math/rand"
	"sort"
	"strings"

	"github.com/Tom-Johnston/mamba/disjoint"
)

// Protocol ds:  ds <all|end> <n> (u x y | ub x y | f x | fb x)*
// Reply (observable level only: partitions, never representatives):
//   mode all: SmallestRep after every op, then final SmallestRep, Sets, number of Roots.
// Oracle: naive label-array partition; Find(x) consistent across members; lookups keep the partition;
// Sets sorted / ordered by least element / a partition; Roots one per set.

func showSets(s [][]int) string {
	parts := make([]string, len(s))
	for i, x := range s {
		parts[i] = showInts(x)
	}
	return "[" + strings.Join(parts, " ") + "]"
}

func init() {
	register(&Proto{
		Name:  "ds",
		Props: []string{"C18"},
		Run: func(args []string) Result {
			all := args[0] == "all"
			n := atoi(args[1])
			ops := args[2:]
			ds := disjoint.New(n)
			buf := make([]int, n+1)
			lab := make([]int, n) // naive oracle: lab[i] = least member of the class of i
			for i := range lab {
				lab[i] = i
			}
			var out strings.Builder
			oracle := ""
			fail := func(f string, a ...interface{}) {
				if oracle == "" {
					oracle = fmt.Sprintf(f, a...)
				}
			}
			tags := map[string]bool{}
			nun := 0
			checkSR := func(when string) []int {
				sr := ds.SmallestRep()
				for i := range lab {
					if sr[i] != lab[i] {
						fail("%s: SmallestRep=%v but unions performed give %v", when, sr, lab)
						break
					}
				}
				return sr
			}
			for i := 0; i < len(ops); {
				switch ops[i] {
				case "u", "ub":
					x, y := atoi(ops[i+1]), atoi(ops[i+2])
					if lab[x] == lab[y] {
						tags["union-joined"] = true
					} else {
						nun++
					}
					if ops[i] == "u" {
						ds.Union(x, y)
					} else {
						ds.UnionBuffered(x, y, buf)
					}
					a, b := lab[x], lab[y]
					if a != b {
						lo, hi := a, b
						if hi < lo {
							lo, hi = hi, lo
						}
						for j := range lab {
							if lab[j] == hi {
								lab[j] = lo
							}
						}
					}
					i += 3
				case "f", "fb":
					x := atoi(ops[i+1])
					before := append([]int(nil), ds...)
					var r int
					if ops[i] == "f" {
						r = ds.Find(x)
					} else {
						r = ds.FindBuffered(x, buf)
					}
					if r < 0 || r >= n || lab[r] != lab[x] {
						fail("Find(%d)=%d is not in the class of %d (%v)", x, r, x, lab)
					}
					for j := range before {
						if before[j] != ds[j] {
							tags["compression"] = true
						}
					}
					// every member of the class must have the same representative
					for j := range lab {
						if lab[j] == lab[x] {
							if ds.Find(j) != ds.Find(x) {
								fail("members %d and %d of one class have different representatives", j, x)
							}
						}
					}
					i += 2
				default:
					return Result{Out: "bad-op"}
				}
				if all {
					sr := checkSR(fmt.Sprintf("after op %d", i))
					out.WriteString(showInts(sr) + ";")
				}
			}
			sr := checkSR("final")
			sets := ds.Sets()
			roots := ds.Roots()
			// Sets: sorted, ordered by least element, partition consistent with lab
			seen := make([]bool, n)
			prevMin := -1
			for _, s := range sets {
				if len(s) == 0 {
					fail("Sets returned an empty set")
					continue
				}
				if !sort.IntsAreSorted(s) {
					fail("Sets: set %v not sorted", s)
				}
				if s[0] <= prevMin {
					fail("Sets not ordered by least element: %v", sets)
				}
				prevMin = s[0]
				for _, v := range s {
					if v < 0 || v >= n || seen[v] {
						fail("Sets: element %d repeated or out of range", v)
						continue
					}
					seen[v] = true
					if lab[v] != s[0] {
						fail("Sets: %d placed in set of %d but class label is %d", v, s[0], lab[v])
					}
				}
			}
			for v := range seen {
				if !seen[v] {
					fail("Sets: element %d missing", v)
				}
			}
			rootClass := map[int]bool{}
			for _, r := range roots {
				if r < 0 || r >= n || rootClass[lab[r]] {
					fail("Roots: %v has two roots in one set or out of range", roots)
					continue
				}
				rootClass[lab[r]] = true
			}
			if len(roots) != len(sets) {
				fail("Roots: %d roots for %d sets", len(roots), len(sets))
			}
			out.WriteString("sr=" + showInts(sr) + " sets=" + showSets(sets) + fmt.Sprintf(" roots=%d", len(roots)))
			tl := []string{}
			for t := range tags {
				tl = append(tl, t)
			}
			if nun >= 2 {
				tl = append(tl, "nontrivial")
			}
			return Result{Out: out.String(), Oracle: oracle, Tags: tl}
		},
		Gen: func(r *rand.Rand, tier string, emit func(string)) {
			cases := 1500
			if tier == "thorough" {
				cases = 40000
			}
			// boundary cases first
			emit("ds all 0")
			emit("ds all 1 f 0 fb 0 u 0 0")
			emit("ds all 2 u 0 1 u 1 0 ub 0 1 f 0 f 1")
			for c := 0; c < cases; c++ {
				n := 1 + r.Intn(12)
				mode := "all"
				nops := 1 + r.Intn(24)
				kind := r.Intn(4)
				if kind == 3 { // large: long chains to force compression
					n = 20 + r.Intn(180)
					mode = "end"
					nops = n + r.Intn(3*n)
				}
				var b strings.Builder
				fmt.Fprintf(&b, "ds %s %d", mode, n)
				for k := 0; k < nops; k++ {
					switch p := r.Intn(10); {
					case p < 5:
						x, y := r.Intn(n), r.Intn(n)
						if kind == 2 && k < n-1 { // chain-building: join k+1 to an element of the growing class
							x, y = k+1, r.Intn(k+1)
						}
						op := "u"
						if r.Intn(2) == 0 {
							op = "ub"
						}
						fmt.Fprintf(&b, " %s %d %d", op, x, y)
					default:
						op := "f"
						if r.Intn(2) == 0 {
							op = "fb"
						}
						fmt.Fprintf(&b, " %s %d", op, r.Intn(n))
					}
				}
				emit(b.String())
			}
		},
	})
}
