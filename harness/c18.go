package main

import (
	"fmt"
	"math/rand"
	"sort"
	"strings"
	"time"

	"github.com/Tom-Johnston/mamba/disjoint"
)

// Protocol ds:  ds <all|end> <n> (u x y | ub x y | f x | fb x)*
// Reply (observable level only: partitions, never representatives):
//   mode all: SmallestRep after every op, then final SmallestRep, Sets, number of Roots.
// Oracle: naive label-array partition; Find(x) consistent across members; lookups keep the partition;
// Sets sorted / ordered by least element / a partition; Roots one per set.

func showSets(s [][]int) string {
	parts := make([]string, len(s))
	for i, x := range s {
		parts[i] = showInts(x)
	}
	return "[" + strings.Join(parts, " ") + "]"
}

// c18Cycle returns an element from which following parent entries does not reach a root within
// len(ds) steps (Find on it would never return), or -1. The harness must not call Find on such a
// structure: the library loop would run (and allocate) forever inside the harness process.
func c18Cycle(ds []int) int {
	n := len(ds)
	for x := 0; x < n; x++ {
		cur, steps := x, 0
		for cur >= 0 && cur < n && ds[cur] >= 0 {
			cur = ds[cur]
			steps++
			if steps > n {
				return x
			}
		}
	}
	return -1
}

// c18Find calls the library Find(x) and then checks that every node that was on the path from x
// (the only entries path compression may touch) still reaches a root; ok=false means Find created a
// cycle. ds must be acyclic before the call. buf != nil selects FindBuffered.
func c18Find(ds *disjoint.Set, x int, buf []int) (r int, ok bool) {
	d := *ds
	n := len(d)
	path := []int{}
	for cur := x; cur >= 0 && cur < n && len(path) <= n; cur = d[cur] {
		path = append(path, cur)
		if d[cur] < 0 {
			break
		}
	}
	if buf != nil {
		r = ds.FindBuffered(x, buf)
	} else {
		r = ds.Find(x)
	}
	d = *ds
	for _, p := range path {
		cur, steps := p, 0
		for cur >= 0 && cur < n && d[cur] >= 0 {
			cur = d[cur]
			steps++
			if steps > n {
				return r, false
			}
		}
	}
	return r, true
}

// c18Rehearse runs Find on a copy of ds for the given elements (all elements if xs is nil) and
// reports the first element whose Find creates a cycle in the copy (-1 if none). It is called
// before library calls that perform several Finds internally (Union, SmallestRep, Sets), which would
// otherwise hang on a cycle created by their own first Find. ds itself must be acyclic.
func c18Rehearse(ds disjoint.Set, xs []int, buf []int) int {
	tmp := append(disjoint.Set(nil), ds...)
	if xs == nil {
		for i := range tmp {
			xs = append(xs, i)
		}
	}
	for _, x := range xs {
		if _, ok := c18Find(&tmp, x, buf); !ok {
			return x
		}
	}
	return -1
}

func init() {
	register(&Proto{
		Name:    "ds",
		Timeout: 5 * time.Second,
		Props: []string{"C18"},
		Run: func(args []string) Result {
			all := args[0] == "all"
			n := atoi(args[1])
			ops := args[2:]
			ds := disjoint.New(n)
			// the buffer handed to FindBuffered / UnionBuffered only provides initial storage (the code appends beyond it);
			// half of the histories use a buffer shorter than the longest possible chain
			buf := make([]int, n+1)
			if n >= 2 && len(ops)%2 == 1 {
				buf = make([]int, 1+len(ops)%2, 2)
			}
			lab := make([]int, n) // naive oracle: lab[i] = least member of the class of i
			for i := range lab {
				lab[i] = i
			}
			var out strings.Builder
			oracle := ""
			fail := func(f string, a ...interface{}) {
				if oracle == "" {
					oracle = fmt.Sprintf(f, a...)
				}
			}
			tags := map[string]bool{}
			nun := 0
			cycleResult := func(when string, x int) Result {
				return Result{Out: out.String() + "cycle", Tags: []string{"cycle"},
					Oracle: fmt.Sprintf("%s: Find(%d) leaves parent links that never reach a root (the next Find would not terminate); state before: %v", when, x, []int(ds))}
			}
			checkSR := func(when string) []int {
				sr := ds.SmallestRep()
				for i := range lab {
					if sr[i] != lab[i] {
						fail("%s: SmallestRep=%v but unions performed give %v", when, sr, lab)
						break
					}
				}
				return sr
			}
			for i := 0; i < len(ops); {
				switch ops[i] {
				case "u", "ub":
					x, y := atoi(ops[i+1]), atoi(ops[i+2])
					if lab[x] == lab[y] {
						tags["union-joined"] = true
					} else {
						nun++
					}
					var rbuf []int
					if ops[i] == "ub" {
						rbuf = buf
					}
					if c := c18Rehearse(ds, []int{x, y}, rbuf); c >= 0 {
						return cycleResult(fmt.Sprintf("inside %s %d %d (op at token %d)", ops[i], x, y, i), c)
					}
					if ops[i] == "u" {
						ds.Union(x, y)
					} else {
						ds.UnionBuffered(x, y, buf)
					}
					a, b := lab[x], lab[y]
					if a != b {
						lo, hi := a, b
						if hi < lo {
							lo, hi = hi, lo
						}
						for j := range lab {
							if lab[j] == hi {
								lab[j] = lo
							}
						}
					}
					i += 3
				case "f", "fb":
					x := atoi(ops[i+1])
					before := append([]int(nil), ds...)
					var r int
					if ops[i] == "f" {
						r = ds.Find(x)
					} else {
						r = ds.FindBuffered(x, buf)
					}
					if c := c18Cycle(ds); c >= 0 {
						ds = before
						return cycleResult(fmt.Sprintf("%s %d (op at token %d)", ops[i], x, i), x)
					}
					if r < 0 || r >= n || lab[r] != lab[x] {
						fail("Find(%d)=%d is not in the class of %d (%v)", x, r, x, lab)
					}
					for j := range before {
						if before[j] != ds[j] {
							tags["compression"] = true
						}
					}
					// every member of the class must have the same representative
					for j := range lab {
						if lab[j] == lab[x] {
							rj, ok1 := c18Find(&ds, j, nil)
							if !ok1 {
								return cycleResult(fmt.Sprintf("after %s %d (op at token %d)", ops[i], x, i), j)
							}
							rx, ok2 := c18Find(&ds, x, nil)
							if !ok2 {
								return cycleResult(fmt.Sprintf("after %s %d (op at token %d)", ops[i], x, i), x)
							}
							if rj != rx {
								fail("members %d and %d of one class have different representatives", j, x)
							}
						}
					}
					i += 2
				default:
					return Result{Out: "bad-op"}
				}
				if c := c18Cycle(ds); c >= 0 {
					return Result{Out: out.String() + "cycle", Tags: []string{"cycle"},
						Oracle: fmt.Sprintf("after the op ending at token %d the parent links from %d never reach a root (Find(%d) would not terminate): %v", i, c, c, []int(ds))}
				}
				if all {
					if c := c18Rehearse(ds, nil, nil); c >= 0 {
						return cycleResult(fmt.Sprintf("lookups after the op ending at token %d", i), c)
					}
					sr := checkSR(fmt.Sprintf("after op %d", i))
					out.WriteString(showInts(sr) + ";")
				}
			}
			if c := c18Rehearse(ds, nil, nil); c >= 0 {
				return cycleResult("final lookups", c)
			}
			// mode "sf": the views are taken in the order Roots, Sets, SmallestRep on the un-flattened structure
			// (SmallestRep and Sets call Find on everything, so whichever runs first sees the deep trees)
			var sr []int
			var sets [][]int
			var roots []int
			if args[0] == "sf" {
				roots = ds.Roots()
				sets = ds.Sets()
				sr = checkSR("final")
			} else {
				sr = checkSR("final")
				sets = ds.Sets()
				roots = ds.Roots()
			}
			// Sets: sorted, ordered by least element, partition consistent with lab
			seen := make([]bool, n)
			prevMin := -1
			for _, s := range sets {
				if len(s) == 0 {
					fail("Sets returned an empty set")
					continue
				}
				if !sort.IntsAreSorted(s) {
					fail("Sets: set %v not sorted", s)
				}
				if s[0] <= prevMin {
					fail("Sets not ordered by least element: %v", sets)
				}
				prevMin = s[0]
				for _, v := range s {
					if v < 0 || v >= n || seen[v] {
						fail("Sets: element %d repeated or out of range", v)
						continue
					}
					seen[v] = true
					if lab[v] != s[0] {
						fail("Sets: %d placed in set of %d but class label is %d", v, s[0], lab[v])
					}
				}
			}
			for v := range seen {
				if !seen[v] {
					fail("Sets: element %d missing", v)
				}
			}
			rootClass := map[int]bool{}
			for _, r := range roots {
				if r < 0 || r >= n || rootClass[lab[r]] {
					fail("Roots: %v has two roots in one set or out of range", roots)
					continue
				}
				rootClass[lab[r]] = true
			}
			if len(roots) != len(sets) {
				fail("Roots: %d roots for %d sets", len(roots), len(sets))
			}
			out.WriteString("sr=" + showInts(sr) + " sets=" + showSets(sets) + fmt.Sprintf(" roots=%d", len(roots)))
			tl := []string{}
			for t := range tags {
				tl = append(tl, t)
			}
			if nun >= 2 {
				tl = append(tl, "nontrivial")
			}
			return Result{Out: out.String(), Oracle: oracle, Tags: tl}
		},
		Gen: func(r *rand.Rand, tier string, emit func(string)) {
			cases := 1500
			if tier == "thorough" {
				cases = 40000
			}
			// boundary cases first
			emit("ds all 0")
			emit("ds all 1 f 0 fb 0 u 0 0")
			emit("ds all 2 u 0 1 u 1 0 ub 0 1 f 0 f 1")
			for c := 0; c < cases; c++ {
				n := 1 + r.Intn(12)
				mode := "all"
				nops := 1 + r.Intn(24)
				kind := r.Intn(4)
				if kind == 3 { // large: long chains to force compression
					n = 20 + r.Intn(180)
					mode = "end"
					nops = n + r.Intn(3*n)
				}
				if mode == "all" && r.Intn(3) == 0 {
					mode = "sf" // no lookups between the ops: Sets/Roots run on deep, uncompressed trees
				}
				unionsOnly := false
				if c%10 == 9 { // more than 64 elements, unions only: the final views run on deep trees nobody has looked up
					n = 65 + r.Intn(140)
					mode = []string{"sf", "end"}[r.Intn(2)]
					nops = n/2 + r.Intn(n)
					kind = 1 + r.Intn(2)
					unionsOnly = true
				}
				var b strings.Builder
				fmt.Fprintf(&b, "ds %s %d", mode, n)
				for k := 0; k < nops; k++ {
					switch p := r.Intn(10); {
					case p < 5 || unionsOnly:
						x, y := r.Intn(n), r.Intn(n)
						if kind == 2 && k < n-1 { // chain-building: join k+1 to an element of the growing class
							x, y = k+1, r.Intn(k+1)
						}
						op := "u"
						if r.Intn(2) == 0 {
							op = "ub"
						}
						fmt.Fprintf(&b, " %s %d %d", op, x, y)
					default:
						op := "f"
						if r.Intn(2) == 0 {
							op = "fb"
						}
						fmt.Fprintf(&b, " %s %d", op, r.Intn(n))
					}
				}
				emit(b.String())
			}
		},
	})
}
