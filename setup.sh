#!/bin/sh
# Build the framework from files on disk only (offline).
set -e
cd "$(dirname "$0")"
export GOFLAGS=-mod=mod GOPROXY=off GOSUMDB=off GOTOOLCHAIN=local
mkdir -p .build evidence replays
export GOCACHE="${GOCACHE:-$PWD/.build/gocache}"
(cd harness && go build -tags verif -o ../.build/vh .)
./.build/vh gen-tables lean/Mamba/Gen
(cd extract && go build -o ../.build/extract .)
./.build/extract "${VERIF_REPO:-/repo}" lean/Mamba/Gen .build/facts.json
(cd lean && lake build)
