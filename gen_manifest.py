#!/usr/bin/env python3
"""Regenerate MANIFEST.json from props.json (only properties with "register": true are claimed)."""
import json, os, subprocess
ROOT = os.path.dirname(os.path.abspath(__file__))
props = json.load(open(os.path.join(ROOT, "props.json")))
ids = [json.loads(l)["id"] for l in open(os.path.join(ROOT, "properties.jsonl"))]
hooks_commits = []
hp = os.path.join(ROOT, "hooks.json")
hooks = json.load(open(hp)) if os.path.exists(hp) else {"source_commits": []}
checks, na = [], []
for pid in ids:
    c = props.get(pid)
    if c and c.get("register"):
        checks.append({
            "property_id": pid,
            "quick_cmd": "./check %s --tier quick" % pid,
            "thorough_cmd": "./check %s --tier thorough" % pid,
            "evidence_file": "/verif/evidence/%s.json" % pid,
            "replay_cmd_template": "./check %s --replay {path}" % pid,
            "engine": "lean-proof+correspondence",
            "level_claimed": {"category": c["level"], "text": c["level_text"], "design_ref": c.get("design_ref", "DESIGN.md")},
            "level_note": c["level_note"],
            "technique": c.get("technique", "Lean 4 theorems over an executable model + differential correspondence with the Go code"),
        })
    else:
        na.append({"property_id": pid, "reason": (c or {}).get("not_applicable_reason",
                   "check not registered yet (framework under construction) — not a statement that the technique cannot apply")})
m = {
    "version": 1,
    "setup_cmd": "./setup.sh",
    "hooks": {
        "guard": "verif",
        "enable": "go build -tags verif (the harness module /verif/harness replaces github.com/Tom-Johnston/mamba with /repo's working tree)",
        "baseline_off_cmd": "cd /repo && go test -vet=off -count=1 ./...",
        "source_commits": hooks.get("source_commits", []),
        "add_only": True,
    },
    "engines": [{"name": "lean-proof+correspondence", "path": "check", "serves_properties": [c["property_id"] for c in checks],
                 "kind_free_text": "Lean 4 theorems over executable models (lean/Mamba/{Model,Spec,Props}), a translator regenerating Lean from the Go source (extract/), and a Go harness driving the real code and the compiled Lean model on the same request lines (harness/, lean/Main.lean)"}],
    "checks": checks,
    "not_applicable": na,
    "notes": "Every check: ./check <id> [--tier quick|thorough]; exit 0 quiet, exit 1 with 'VIOLATION property=<id> replay=<path>'. See DESIGN.md.",
}
json.dump(m, open(os.path.join(ROOT, "MANIFEST.json"), "w"), indent=1)
print("registered:", [c["property_id"] for c in checks])
