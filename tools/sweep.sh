#!/bin/bash
# unchanged-tree sweep: quick tier seeds 2..6 for every property, then thorough seed 1, in a private copy of /verif
cd /root/work/verif-sweep
for s in 2 3 4 5 6; do for p in C01 C02 C03 C04 C05 C06 C07 C08 C09 C10 C11 C12 C13 C14 C15 C16 C17 C18 C19 C20; do
  out=$(VERIF_SEED=$s ./check $p 2>&1 | tail -1); rc=$?; echo "quick seed=$s $p: $out"; done; done
for p in C01 C02 C03 C04 C05 C06 C07 C08 C09 C10 C11 C12 C13 C14 C15 C16 C17 C18 C19 C20; do
  out=$(VERIF_SEED=1 ./check $p --tier thorough 2>&1 | tail -1); echo "thorough $p: $out"; done
