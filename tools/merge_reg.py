#!/usr/bin/env python3
import sys,re,json
a=sys.argv[1]; pids=sys.argv[2:]
W='/root/work/agents/%s/verif/'%a
base=open('/root/work/agents/base/All.lean').read().splitlines()
theirs=open(W+'lean/Mamba/Drv/All.lean').read().splitlines()
mine=open('/verif/lean/Mamba/Drv/All.lean').read().splitlines()
new=[l for l in theirs if l.strip() and l not in base and l not in mine]
imports=[l for l in new if l.startswith('import')]
disp=[l for l in new if l.strip().startswith('|')]
out=[]
last_imp=max(i for i,l in enumerate(mine) if l.startswith('import'))
for i,l in enumerate(mine):
    if l.strip().startswith('| _ =>'):
        out+=disp
    out.append(l)
    if i==last_imp: out+=imports
open('/verif/lean/Mamba/Drv/All.lean','w').write("\n".join(out)+"\n")
m=open('/verif/lean/Mamba.lean').read()
for l in open(W+'lean/Mamba.lean').read().splitlines():
    if l.startswith('import') and l not in m: m+=l+"\n"
open('/verif/lean/Mamba.lean','w').write(m)
p=json.load(open('/verif/props.json')); t=json.load(open(W+'props.json'))
for pid in pids:
    e=t[pid]; 
    for k in ('register','level_text','level_note','technique','design_ref'):
        if k in p.get(pid,{}): e[k]=p[pid][k]
    p[pid]=e
json.dump(p,open('/verif/props.json','w'),indent=1)
print("imports",imports,"dispatch",disp)
