#!/bin/sh
# mkws.sh <name>: private workspace for a builder agent: copy of /verif (with build cache) and of /repo
set -e
W=/root/work/agents/$1
rm -rf "$W"; mkdir -p "$W"
rsync -a --exclude .git /verif/ "$W/verif/"
rsync -a /repo/ "$W/repo/"
echo "$W"
