#!/bin/bash
# harmless_check.sh <ID> <k> [PROP ...]: run checks (in a private copy of /verif) against a scratch copy of /repo with a
# behaviour-preserving rewrite applied; expected: exit 0, no VIOLATION.
ID=$1; K=$2; shift 2
PROPS=${@:-$ID}
V=/root/work/verif-harmless
[ -d $V ] || rsync -a /verif/ $V/
export GOFLAGS=-mod=mod GOPROXY=off GOSUMDB=off GOTOOLCHAIN=local
R=/root/work/harmlessrepo/$ID-$K; rm -rf $R; mkdir -p $R; rsync -a --exclude .git /repo/ $R/
(cd $R && patch -p1 -s < /tmp/seed/$ID.out/harmless$K.diff) || { echo "$ID-h$K: patch failed"; exit 2; }
(cd $R && go build ./... && go test -vet=off -count=1 ./... > /tmp/harmless.$ID-$K.test.log 2>&1) || { echo "$ID-h$K: build/tests FAIL with the rewrite"; exit 2; }
cd $V
for P in $PROPS; do VERIF_REPO=$R ./check $P > /tmp/harmless.$ID-$K.$P.log 2>&1; echo "$ID-h$K on $P: rc=$? $(grep -E 'VIOLATION|BROKEN' /tmp/harmless.$ID-$K.$P.log | head -1)"; done
rm -rf $R
