#!/bin/bash
# run every stored behaviour-preserving rewrite through the checks of its property (+ related ones); expected rc=0
rsync -a --delete /verif/ /root/work/verif-harmless/
declare -A EXTRA=( [C01]="C02 C03" [C02]="C01" [C03]="C04" [C04]="C03 C05" [C05]="C06" [C06]="C07 C08" [C07]="C08" [C12]="C14 C13" [C13]="C12" [C11]="C10" [C19]="C16" )
OUT=/root/work/harmless_results.txt; : > $OUT
for f in /verif/harmless/C*-h*.diff; do b=$(basename $f .diff); ID=${b%%-*}; K=${b##*-h}
  R=/root/work/harmlessrepo/$b; rm -rf $R; mkdir -p $R; rsync -a --exclude .git /repo/ $R/
  if ! (cd $R && patch -p1 -s < $f) >/dev/null 2>&1; then echo "$b - does-not-apply-to-current-head" >> $OUT; rm -rf $R; continue; fi
  if ! (cd $R && GOFLAGS=-mod=mod GOPROXY=off GOSUMDB=off GOTOOLCHAIN=local go build ./... >/dev/null 2>&1); then echo "$b - does-not-build" >> $OUT; rm -rf $R; continue; fi
  for P in $ID ${EXTRA[$ID]}; do (cd /root/work/verif-harmless && VERIF_REPO=$R ./check $P > /tmp/hall.$b.$P.log 2>&1; echo "$b $P rc=$? $(grep -E 'VIOLATION|BROKEN' /tmp/hall.$b.$P.log | head -1 | cut -c1-120)" >> $OUT); done
  rm -rf $R
done
echo DONE >> $OUT
