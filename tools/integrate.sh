#!/bin/bash
# integrate.sh <agent> <regex>: copy the agent's files whose path matches <regex> into /verif (new or changed);
# everything else that differs is listed and skipped (stale copies of other slices / shared files).
A=$1; PAT=$2; W=/root/work/agents/$A/verif
cd $W || exit 1
for f in $(find lean/Mamba harness corpus notes extract extract_fp *.sh *.py -type f 2>/dev/null | grep -v '/Gen/' | sort); do
  if [ -f /verif/$f ] && cmp -s $f /verif/$f; then continue; fi
  if echo "$f" | grep -Eq "$PAT"; then mkdir -p /verif/$(dirname $f); cp $f /verif/$f; echo "  copied $f";
  else echo "  SKIPPED (not owned) $f"; fi
done
