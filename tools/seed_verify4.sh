#!/bin/bash
# seed_verify.sh <ID> <k>: confirm a seeded change: (1) applies cleanly to /repo HEAD in a scratch worktree, (2) all
# existing tests pass with it, (3) demo fails with it, (4) demo passes without it. Then store under /verif/seeded/<ID>-<k>/
ID=$1; K=$2
export GOFLAGS=-mod=mod GOPROXY=off GOSUMDB=off GOTOOLCHAIN=local
OUT=/tmp/seed4/$ID.out
WT=/tmp/seedverify/$ID-r4-$K
rm -rf $WT; mkdir -p /tmp/seedverify
git -C /repo worktree add --detach $WT HEAD >/dev/null 2>&1 || { echo "worktree failed"; exit 2; }
cleanup() { git -C /repo worktree remove --force $WT >/dev/null 2>&1; }
trap cleanup EXIT
cd $WT
if ! git apply $OUT/change$K.diff; then echo "RESULT $ID-$K: patch does not apply"; exit 1; fi
if git diff --name-only | grep -q '_test.go'; then echo "RESULT $ID-$K: touches test files"; exit 1; fi
if ! go build ./... ; then echo "RESULT $ID-$K: does not build"; exit 1; fi
if ! go test -vet=off -count=1 ./... > /tmp/seedverify/$ID-$K.test.log 2>&1; then echo "RESULT $ID-$K: existing tests FAIL with the change"; tail -5 /tmp/seedverify/$ID-$K.test.log; exit 1; fi
# demo: copy and retarget the replace directive
D=/tmp/seedverify/$ID-$K.demo; rm -rf $D; cp -r $OUT/demo$K $D
sed -i "s#=> /tmp/seed4/$ID\$#=> $WT#; s#=> /tmp/seed4/$ID/#=> $WT/#" $D/go.mod
cd $D
rundemo() { if ls *_test.go >/dev/null 2>&1; then timeout 600 go test -vet=off -count=1 ./... ; else timeout 600 go run . ; fi; }
rundemo > /tmp/seedverify/$ID-$K.with.log 2>&1; RC_WITH=$?
git -C $WT checkout -- .
rundemo > /tmp/seedverify/$ID-$K.without.log 2>&1; RC_WITHOUT=$?
echo "RESULT $ID-$K: tests pass with change; demo rc with=$RC_WITH without=$RC_WITHOUT"
if [ $RC_WITH -ne 0 ] && [ $RC_WITHOUT -eq 0 ]; then
  S=/verif/seeded/$ID-$((K+6)); rm -rf $S; mkdir -p $S
  cp $OUT/change$K.diff $S/patch.diff; cp -r $OUT/demo$K $S/demo; cp $OUT/meta$K.json $S/meta.agent.json
  tail -3 /tmp/seedverify/$ID-$K.with.log > $S/demo_fail_tail.txt
  echo "CONFIRMED -> $S"; rm -rf $D; exit 0
fi
echo "NOT CONFIRMED"; tail -5 /tmp/seedverify/$ID-$K.with.log; tail -5 /tmp/seedverify/$ID-$K.without.log; exit 1
