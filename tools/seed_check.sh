#!/bin/bash
# seed_check.sh <ID> <k> [PROP ...]: run checks against a scratch copy of /repo with the seeded change applied.
ID=$1; K=$2; shift 2
PROPS=${@:-$ID}
R=/root/work/seedrepo/$ID-$K; rm -rf $R; mkdir -p $R; rsync -a --exclude .git /repo/ $R/
(cd $R && patch -p1 -s < /verif/seeded/$ID-$K/patch.diff) || { echo "patch failed"; exit 2; }
cd /verif
for P in $PROPS; do VERIF_REPO=$R ./check $P > /tmp/seedcheck.$ID-$K.$P.log 2>&1; echo "$ID-$K on $P: rc=$? $(grep VIOLATION /tmp/seedcheck.$ID-$K.$P.log | head -1)"; done
rm -rf $R
