package main

// Generator for property C17: Gen/SortConsts.lean from ints/int_sort.go and sortints/sorted_ints.go.
//
// Constants are located by function name and syntactic ROLE (never by the name of a local variable or
// parameter), so that reformatting, renaming locals or reordering independent statements keeps the output
// unchanged. An item whose place in the source is not recognised (a refactored function) is emitted with its DEFAULT —
// the hand-written value the model used before regeneration — together with `found_<name> := false`; nothing that
// Props/ needs depends on the `found_` flags, so an unrecognised shape leaves the model as it was and the
// correspondence alone ties it to the code. Where the source contains two textual copies of a constant that must
// agree (the two `M*s` of the ninther, the two `child+1` of siftDown, the start `a+G` and the offsets `i-G` of the
// Shell pass) both are emitted, each used by the model in its own place, so that a disagreement is a recognised
// shape that the proofs see. Structural fingerprints are emitted for information only: no theorem depends on them.
// The items that were not regenerated are listed in `Gen.Sort.notRegenerated` and in `<facts dir>/facts_c17.json`
// under the key `not_regenerated:SortConsts.lean`.

import (
	"encoding/json"
	"fmt"
	"os"
	"go/ast"
	"go/token"
	"path/filepath"
	"sort"
	"strconv"
	"strings"
)

type c17Const struct {
	name, typ, val, doc string
	found               bool
}

func c17Func(p *pkgInfo, recv, name string) *ast.FuncDecl {
	for _, f := range p.files {
		for _, d := range f.Decls {
			fd, ok := d.(*ast.FuncDecl)
			if !ok || fd.Name.Name != name || fd.Body == nil {
				continue
			}
			if (recv == "") != (fd.Recv == nil) {
				continue
			}
			return fd
		}
	}
	return nil
}

// c17Lit returns the integer value of an (optionally negated, parenthesised) integer literal.
func c17Lit(e ast.Expr) (int64, bool) {
	switch x := e.(type) {
	case *ast.ParenExpr:
		return c17Lit(x.X)
	case *ast.BasicLit:
		if x.Kind == token.INT {
			v, err := strconv.ParseInt(x.Value, 0, 64)
			return v, err == nil
		}
	case *ast.UnaryExpr:
		if x.Op == token.SUB {
			v, ok := c17Lit(x.X)
			return -v, ok
		}
		if x.Op == token.ADD {
			return c17Lit(x.X)
		}
	}
	return 0, false
}

func c17Unparen(e ast.Expr) ast.Expr {
	for {
		p, ok := e.(*ast.ParenExpr)
		if !ok {
			return e
		}
		e = p.X
	}
}

// c17Bin matches `X op lit` (lit on the right); for the comparisons `>` and `<` and the commutative `+`, `*` also
// the mirrored spelling (`lit < X` for `X > lit`, `lit + X`).
func c17Bin(e ast.Expr, op token.Token) (ast.Expr, int64, bool) {
	b, ok := c17Unparen(e).(*ast.BinaryExpr)
	if !ok {
		return nil, 0, false
	}
	mirror := map[token.Token]token.Token{token.GTR: token.LSS, token.LSS: token.GTR, token.ADD: token.ADD, token.MUL: token.MUL}
	if b.Op == op {
		if v, ok := c17Lit(b.Y); ok {
			return b.X, v, true
		}
	}
	if m, has := mirror[op]; has && b.Op == m {
		if v, ok := c17Lit(b.X); ok {
			if _, both := c17Lit(b.Y); !both {
				return b.Y, v, true
			}
		}
	}
	return nil, 0, false
}

// c17First walks n in source order and returns the first node accepted by f.
func c17First(n ast.Node, f func(ast.Node) bool) ast.Node {
	var res ast.Node
	if n == nil {
		return nil
	}
	ast.Inspect(n, func(x ast.Node) bool {
		if res != nil || x == nil {
			return false
		}
		if f(x) {
			res = x
			return false
		}
		return true
	})
	return res
}

func c17All(n ast.Node, f func(ast.Node) bool) []ast.Node {
	var res []ast.Node
	if n == nil {
		return nil
	}
	ast.Inspect(n, func(x ast.Node) bool {
		if x != nil && f(x) {
			res = append(res, x)
		}
		return true
	})
	return res
}

type c17Gen struct {
	consts []c17Const
}

// c17Defaults: the values the hand-written model used before regeneration.
var c17Defaults = map[string]int64{
	"qsSmall": 12, "qsMin": 1, "shellGap": 6, "shellGapIdx": 6, "pivotShift": 1, "nintherMin": 40, "nintherDiv": 8,
	"nintherMul": 2, "nintherMul2": 2, "protectMin": 5, "dupsDiv": 4, "dupsMin": 1, "heapMul": 2, "heapAdd": 1,
	"heapSib": 1, "heapSibIdx": 1, "heapBuildSub": 1, "heapBuildDiv": 2, "mdShift": 1, "mdMul": 2,
}

func (g *c17Gen) put(name, typ, doc string, v int64, ok bool) {
	def, has := c17Defaults[name]
	if !has {
		die("c17: no default for %s", name)
	}
	if ok && typ == "Nat" && v < 0 {
		ok = false
	}
	if !ok {
		v = def
	}
	val := strconv.FormatInt(v, 10)
	if v < 0 {
		val = "(" + val + ")"
	}
	g.consts = append(g.consts, c17Const{name, typ, val, doc, ok})
}

func (g *c17Gen) intSort(p *pkgInfo) {
	// ---- quickSort ----
	{
		fd := c17Func(p, "", "quickSort")
		var t, k, gap, gapIdx int64
		var okT, okK, okG, okGI bool
		if fd != nil {
			// the loop `for <len> > T {`: first for statement whose condition is `X > lit`
			loop := c17First(fd.Body, func(n ast.Node) bool {
				fs, ok := n.(*ast.ForStmt)
				if !ok || fs.Cond == nil || fs.Init != nil || fs.Post != nil {
					return false
				}
				_, _, ok = c17Bin(fs.Cond, token.GTR)
				return ok
			})
			if loop != nil {
				_, t, okT = c17Bin(loop.(*ast.ForStmt).Cond, token.GTR)
			}
			// the tail `if <len> > K { shell pass; insertionSort }`: top-level if with condition `X > lit`
			for _, st := range fd.Body.List {
				is, ok := st.(*ast.IfStmt)
				if !ok {
					continue
				}
				if _, v, ok := c17Bin(is.Cond, token.GTR); ok {
					k, okK = v, true
					// the Shell pass: `for i := a + G; …` and every index `i - G` in its body
					sh := c17First(is.Body, func(n ast.Node) bool { _, ok := n.(*ast.ForStmt); return ok })
					if sh != nil {
						if as, ok := sh.(*ast.ForStmt).Init.(*ast.AssignStmt); ok && len(as.Rhs) == 1 {
							if _, v, ok := c17Bin(as.Rhs[0], token.ADD); ok {
								gap, okG = v, true
								first := true
								for _, ix := range c17All(sh.(*ast.ForStmt).Body, func(n ast.Node) bool { _, ok := n.(*ast.IndexExpr); return ok }) {
									if _, v2, ok := c17Bin(ix.(*ast.IndexExpr).Index, token.SUB); ok {
										if first {
											gapIdx, okGI, first = v2, true, false
										} else if v2 != gapIdx {
											okGI = false // the offsets disagree among themselves: not the shape `if data[i] < data[i-G] { swap }`
										}
									}
								}
							}
						}
					}
					break
				}
			}
		}
		g.put("qsSmall", "Int", "quickSort: `for b-a > T` — ranges longer than T are partitioned", t, okT)
		g.put("qsMin", "Int", "quickSort: `if b-a > K` — ranges longer than K get the Shell pass and insertionSort", k, okK)
		g.put("shellGap", "Int", "quickSort: start of the single Shell-sort pass, `i := a + G`", gap, okG)
		g.put("shellGapIdx", "Int", "quickSort: the offset of the Shell-sort pass, `data[i-G]` (all copies agree)", gapIdx, okGI)
	}
	// ---- doPivot ----
	{
		fd := c17Func(p, "", "doPivot")
		var sh, nmin, ndiv, nmul, nmul2, pmin, ddiv, dmin int64
		var okSh, okNmin, okNdiv, okNmul, okPmin, okDdiv, okDmin bool
		if fd != nil {
			if n := c17First(fd.Body, func(n ast.Node) bool { _, _, ok := c17Bin2(n, token.SHR); return ok }); n != nil {
				_, sh, okSh = c17Bin(n.(ast.Expr), token.SHR)
			}
			var after token.Pos
			for _, st := range fd.Body.List {
				switch s := st.(type) {
				case *ast.IfStmt:
					if !okNmin {
						if _, v, ok := c17Bin(s.Cond, token.GTR); ok {
							nmin, okNmin = v, true
							if n := c17First(s.Body, func(n ast.Node) bool { _, _, ok := c17Bin2(n, token.QUO); return ok }); n != nil {
								_, ndiv, okNdiv = c17Bin(n.(ast.Expr), token.QUO)
							}
							muls := c17All(s.Body, func(n ast.Node) bool {
								b, ok := n.(*ast.BinaryExpr)
								if !ok || b.Op != token.MUL {
									return false
								}
								_, l := c17Lit(b.X)
								_, r := c17Lit(b.Y)
								return l != r
							})
							if len(muls) == 2 { // `lo+M*s` and `hi-1-M*s`
								for i, m := range muls {
									b := m.(*ast.BinaryExpr)
									v, ok := c17Lit(b.X)
									if !ok {
										v, _ = c17Lit(b.Y)
									}
									if i == 0 {
										nmul = v
									} else {
										nmul2 = v
									}
								}
								okNmul = true
							}
							continue
						}
					}
					// `if !protect && hi-c < (hi-lo)/Q { … protect = dups > K }`
					if okPmin && !okDdiv && s.Pos() > after {
						if b, ok := c17Unparen(s.Cond).(*ast.BinaryExpr); ok && b.Op == token.LAND {
							if n := c17First(b, func(n ast.Node) bool { _, _, ok := c17Bin2(n, token.QUO); return ok }); n != nil {
								_, ddiv, okDdiv = c17Bin(n.(ast.Expr), token.QUO)
							}
							for _, a := range c17All(s.Body, func(n ast.Node) bool {
								as, ok := n.(*ast.AssignStmt)
								if !ok || as.Tok != token.ASSIGN || len(as.Rhs) != 1 {
									return false
								}
								_, _, ok = c17Bin(as.Rhs[0], token.GTR)
								return ok
							}) {
								_, dmin, okDmin = c17Bin(a.(*ast.AssignStmt).Rhs[0], token.GTR)
							}
						}
					}
				case *ast.AssignStmt:
					// `protect := hi-c < P`
					if !okPmin && s.Tok == token.DEFINE && len(s.Rhs) == 1 {
						if _, v, ok := c17Bin(s.Rhs[0], token.LSS); ok {
							pmin, okPmin, after = v, true, s.Pos()
						}
					}
				}
			}
		}
		g.put("pivotShift", "Nat", "doPivot: `m := int(uint(lo+hi) >> S)`", sh, okSh)
		g.put("nintherMin", "Int", "doPivot: `if hi-lo > N` — Tukey's ninther for ranges longer than N", nmin, okNmin)
		g.put("nintherDiv", "Int", "doPivot: `s := (hi - lo) / D`", ndiv, okNdiv)
		g.put("nintherMul", "Int", "doPivot: the factor M of `lo+M*s`", nmul, okNmul)
		g.put("nintherMul2", "Int", "doPivot: the factor M of `hi-1-M*s`", nmul2, okNmul)
		g.put("protectMin", "Int", "doPivot: `protect := hi-c < P`", pmin, okPmin)
		g.put("dupsDiv", "Int", "doPivot: `hi-c < (hi-lo)/Q`", ddiv, okDdiv)
		g.put("dupsMin", "Nat", "doPivot: `protect = dups > K`", dmin, okDmin)
	}
	// ---- siftDown ----
	{
		fd := c17Func(p, "", "siftDown")
		var mul, add, sib, sibIdx int64
		var okM, okS, okSI bool
		if fd != nil {
			// `child := M*root + A`
			if n := c17First(fd.Body, func(n ast.Node) bool {
				as, ok := n.(*ast.AssignStmt)
				if !ok || as.Tok != token.DEFINE || len(as.Rhs) != 1 {
					return false
				}
				x, _, ok := c17Bin(as.Rhs[0], token.ADD)
				if !ok {
					return false
				}
				b, ok := c17Unparen(x).(*ast.BinaryExpr)
				return ok && b.Op == token.MUL
			}); n != nil {
				x, a, _ := c17Bin(n.(*ast.AssignStmt).Rhs[0], token.ADD)
				b := c17Unparen(x).(*ast.BinaryExpr)
				if v, ok := c17Lit(b.X); ok {
					mul, add, okM = v, a, true
				} else if v, ok := c17Lit(b.Y); ok {
					mul, add, okM = v, a, true
				}
			}
			// `if child+B < hi && data[first+child] < data[first+child+B]`
			if n := c17First(fd.Body, func(n ast.Node) bool {
				is, ok := n.(*ast.IfStmt)
				if !ok {
					return false
				}
				b, ok := c17Unparen(is.Cond).(*ast.BinaryExpr)
				return ok && b.Op == token.LAND
			}); n != nil {
				b := c17Unparen(n.(*ast.IfStmt).Cond).(*ast.BinaryExpr)
				if l, ok := c17Unparen(b.X).(*ast.BinaryExpr); ok && l.Op == token.LSS {
					if _, v, ok := c17Bin(l.X, token.ADD); ok {
						sib, okS = v, true
						// the offset in the second operand of the element comparison
						if r, ok := c17Unparen(b.Y).(*ast.BinaryExpr); ok {
							if ix, ok := c17Unparen(r.Y).(*ast.IndexExpr); ok {
								if _, v2, ok := c17Bin(ix.Index, token.ADD); ok {
									sibIdx, okSI = v2, true
								}
							}
						}
					}
				}
			}
		}
		g.put("heapMul", "Int", "siftDown: `child := M*root + A`", mul, okM)
		g.put("heapAdd", "Int", "siftDown: `child := M*root + A`", add, okM)
		g.put("heapSib", "Int", "siftDown: the sibling test `child+B < hi`", sib, okS)
		g.put("heapSibIdx", "Int", "siftDown: the sibling element `data[first+child+B]`", sibIdx, okSI)
	}
	// ---- heapSort ----
	{
		fd := c17Func(p, "", "heapSort")
		var sub, div int64
		var ok bool
		if fd != nil {
			// `for i := (hi - S) / D; i >= 0; i--`
			if n := c17First(fd.Body, func(n ast.Node) bool {
				fs, ok := n.(*ast.ForStmt)
				if !ok {
					return false
				}
				as, ok := fs.Init.(*ast.AssignStmt)
				if !ok || len(as.Rhs) != 1 {
					return false
				}
				_, _, ok = c17Bin(as.Rhs[0], token.QUO)
				return ok
			}); n != nil {
				x, d, _ := c17Bin(n.(*ast.ForStmt).Init.(*ast.AssignStmt).Rhs[0], token.QUO)
				if _, s, ok2 := c17Bin(x, token.SUB); ok2 {
					sub, div, ok = s, d, true
				} else if _, isId := c17Unparen(x).(*ast.Ident); isId {
					sub, div, ok = 0, d, true
				}
			}
		}
		g.put("heapBuildSub", "Int", "heapSort: `for i := (hi - S) / D`", sub, ok)
		g.put("heapBuildDiv", "Int", "heapSort: `for i := (hi - S) / D`", div, ok)
	}
	// ---- maxDepth ----
	{
		fd := c17Func(p, "", "maxDepth")
		var sh, mul int64
		var okS, okM bool
		if fd != nil {
			if n := c17First(fd.Body, func(n ast.Node) bool {
				as, ok := n.(*ast.AssignStmt)
				return ok && as.Tok == token.SHR_ASSIGN && len(as.Rhs) == 1
			}); n != nil {
				sh, okS = c17Lit(n.(*ast.AssignStmt).Rhs[0])
			}
			// only together with the shift loop: `return depth * F`
			if n := c17First(fd.Body, func(n ast.Node) bool {
				rs, ok := n.(*ast.ReturnStmt)
				return ok && len(rs.Results) == 1
			}); n != nil && okS {
				if b, ok := c17Unparen(n.(*ast.ReturnStmt).Results[0]).(*ast.BinaryExpr); ok && b.Op == token.MUL {
					if v, ok := c17Lit(b.Y); ok {
						mul, okM = v, true
					} else if v, ok := c17Lit(b.X); ok {
						mul, okM = v, true
					}
				} else if _, ok := c17Unparen(n.(*ast.ReturnStmt).Results[0]).(*ast.Ident); ok {
					mul, okM = 1, true
				}
			}
		}
		g.put("mdShift", "Nat", "maxDepth: `i >>= S`", sh, okS)
		g.put("mdMul", "Nat", "maxDepth: `return depth * F`", mul, okM)
	}
}

// c17Bin2 is c17Bin on an arbitrary node.
func c17Bin2(n ast.Node, op token.Token) (ast.Expr, int64, bool) {
	e, ok := n.(ast.Expr)
	if !ok {
		return nil, 0, false
	}
	if _, isParen := e.(*ast.ParenExpr); isParen {
		return nil, 0, false
	}
	return c17Bin(e, op)
}

// c17LeanInt translates a Go integer expression over the parameters of a function into a Lean `Int` term
// (Go's `/` as Int.tdiv).
func c17LeanInt(e ast.Expr, names map[string]string) (string, bool) {
	switch x := e.(type) {
	case *ast.ParenExpr:
		s, ok := c17LeanInt(x.X, names)
		return "(" + s + ")", ok
	case *ast.Ident:
		s, ok := names[x.Name]
		return s, ok
	case *ast.BasicLit:
		if x.Kind == token.INT {
			return x.Value, true
		}
	case *ast.UnaryExpr:
		if x.Op == token.SUB {
			s, ok := c17LeanInt(x.X, names)
			return "(-" + s + ")", ok
		}
	case *ast.BinaryExpr:
		l, ok1 := c17LeanInt(x.X, names)
		r, ok2 := c17LeanInt(x.Y, names)
		ok := ok1 && ok2
		switch x.Op {
		case token.ADD:
			return "(" + l + " + " + r + ")", ok
		case token.SUB:
			return "(" + l + " - " + r + ")", ok
		case token.MUL:
			return "(" + l + " * " + r + ")", ok
		case token.QUO:
			return "(Int.tdiv " + l + " " + r + ")", ok
		}
	}
	return "0", false
}

// c17LeanBool translates a Go condition built from comparisons of integer expressions with && || ! into a Lean
// `Bool` term. Anything else (comparisons of booleans, calls, …) is not recognised.
func c17LeanBool(e ast.Expr, names map[string]string) (string, bool) {
	switch x := e.(type) {
	case *ast.ParenExpr:
		s, ok := c17LeanBool(x.X, names)
		return "(" + s + ")", ok
	case *ast.UnaryExpr:
		if x.Op == token.NOT {
			s, ok := c17LeanBool(x.X, names)
			return "(!" + s + ")", ok
		}
	case *ast.BinaryExpr:
		switch x.Op {
		case token.LAND, token.LOR:
			l, ok1 := c17LeanBool(x.X, names)
			r, ok2 := c17LeanBool(x.Y, names)
			op := " && "
			if x.Op == token.LOR {
				op = " || "
			}
			return "(" + l + op + r + ")", ok1 && ok2
		case token.LSS, token.GTR, token.LEQ, token.GEQ, token.EQL, token.NEQ:
			l, ok1 := c17LeanInt(x.X, names)
			r, ok2 := c17LeanInt(x.Y, names)
			op := map[token.Token]string{token.LSS: "<", token.GTR: ">", token.LEQ: "≤", token.GEQ: "≥", token.EQL: "=", token.NEQ: "≠"}[x.Op]
			return "decide (" + l + " " + op + " " + r + ")", ok1 && ok2
		}
	}
	return "false", false
}

// the rejection test of the hand-written model (the documented one)
const c17RangeDefault = "(decide (e < start) && decide (step > 0)) || (decide (e > start) && decide (step < 0)) || (decide (e ≠ start) && decide (step = 0))"

// rangeRejects: recognised when the FIRST statement of Range is `if <cond> { panic(…) }` (no else) with a condition
// over its three parameters; the model tests it first, as the source does. Any other arrangement (the test moved
// behind the `end == start` case, a helper, …) is not recognised: the hand-written condition is emitted.
func c17RangeRejects(p *pkgInfo) (string, bool) {
	fd := c17Func(p, "", "Range")
	if fd == nil || len(fd.Body.List) == 0 {
		return c17RangeDefault, false
	}
	var params []string
	for _, f := range fd.Type.Params.List {
		for _, n := range f.Names {
			params = append(params, n.Name)
		}
	}
	if len(params) != 3 {
		return c17RangeDefault, false
	}
	names := map[string]string{params[0]: "start", params[1]: "e", params[2]: "step"}
	is, ok := fd.Body.List[0].(*ast.IfStmt)
	if !ok || is.Init != nil || is.Else != nil || len(is.Body.List) != 1 {
		return c17RangeDefault, false
	}
	es, ok := is.Body.List[0].(*ast.ExprStmt)
	if !ok {
		return c17RangeDefault, false
	}
	call, ok := es.X.(*ast.CallExpr)
	if !ok {
		return c17RangeDefault, false
	}
	if id, ok := call.Fun.(*ast.Ident); !ok || id.Name != "panic" {
		return c17RangeDefault, false
	}
	if s, ok := c17LeanBool(is.Cond, names); ok {
		return s, true
	}
	return c17RangeDefault, false
}

// ---- fingerprints (information only) ----

func c17Fingerprint(fd *ast.FuncDecl) string {
	var calls []string
	ifs, fors, rets, idx, slices, swaps := 0, 0, 0, 0, 0, 0
	var lits []string
	ast.Inspect(fd.Body, func(n ast.Node) bool {
		switch x := n.(type) {
		case *ast.CallExpr:
			switch f := x.Fun.(type) {
			case *ast.Ident:
				calls = append(calls, f.Name)
			case *ast.SelectorExpr:
				if id, ok := f.X.(*ast.Ident); ok {
					calls = append(calls, id.Name+"."+f.Sel.Name)
				} else {
					calls = append(calls, "."+f.Sel.Name)
				}
			}
		case *ast.IfStmt:
			ifs++
		case *ast.ForStmt, *ast.RangeStmt:
			fors++
		case *ast.ReturnStmt:
			rets++
		case *ast.IndexExpr:
			idx++
		case *ast.SliceExpr:
			slices++
		case *ast.AssignStmt:
			if x.Tok == token.ASSIGN && len(x.Lhs) == 2 && len(x.Rhs) == 2 {
				swaps++
			}
		case *ast.BasicLit:
			if x.Kind == token.INT {
				lits = append(lits, x.Value)
			}
		}
		return true
	})
	q := make([]string, len(calls))
	for i, c := range calls {
		q[i] = strconv.Quote(c)
	}
	return fmt.Sprintf("{ calls := [%s], ifs := %d, fors := %d, returns := %d, indexes := %d, slices := %d, swaps := %d, lits := [%s] }",
		strings.Join(q, ", "), ifs, fors, rets, idx, slices, swaps, strings.Join(lits, ", "))
}

func c17Fingerprints(p *pkgInfo, prefix string) []string {
	type ent struct{ name, fp string }
	var ents []ent
	for _, f := range p.files {
		for _, d := range f.Decls {
			fd, ok := d.(*ast.FuncDecl)
			if !ok || fd.Body == nil {
				continue
			}
			name := fd.Name.Name
			if fd.Recv != nil {
				name = "method." + name
			}
			ents = append(ents, ent{prefix + "." + name, c17Fingerprint(fd)})
		}
	}
	sort.Slice(ents, func(i, j int) bool { return ents[i].name < ents[j].name })
	out := []string{}
	for _, e := range ents {
		out = append(out, fmt.Sprintf("(%s, %s)", strconv.Quote(e.name), e.fp))
	}
	return out
}

func init() {
	registerGen(func(repo string) (string, string) {
		ip := loadPkg(filepath.Join(repo, "ints"))
		sp := loadPkg(filepath.Join(repo, "sortints"))
		// only the files the models follow
		keep := func(p *pkgInfo, base string) {
			var fs []*ast.File
			for _, f := range p.files {
				if filepath.Base(p.fset.Position(f.Pos()).Filename) == base {
					fs = append(fs, f)
				}
			}
			if len(fs) == 0 {
				die("c17: %s not found", base)
			}
			p.files = fs
		}
		keep(ip, "int_sort.go")
		keep(sp, "sorted_ints.go")
		g := &c17Gen{}
		g.intSort(ip)
		rej, rejOk := c17RangeRejects(sp)

		var b strings.Builder
		b.WriteString("/-! GENERATED by /verif/extract (extract/c17.go) from /repo/ints/int_sort.go and /repo/sortints/sorted_ints.go\non every run — do not edit.  `found_<name> = false` marks an item whose place in the source was not recognised: its\nvalue is then the DEFAULT (the hand-written value of the model before regeneration).  Information only — nothing is\nproved about the `found_` flags. -/\n")
		b.WriteString("namespace Gen.Sort\n\n")
		missing := []string{}
		for _, c := range g.consts {
			fmt.Fprintf(&b, "/-- %s -/\ndef %s : %s := %s\ndef found_%s : Bool := %v\n\n", c.doc, c.name, c.typ, c.val, c.name, c.found)
			if !c.found {
				missing = append(missing, c.name)
			}
		}
		b.WriteString("/-- sortints.Range: the condition of the leading `if … { panic(\"Infinite set\") }` over the parameters (start, end, step) -/\n")
		fmt.Fprintf(&b, "def rangeRejects (start e step : Int) : Bool :=\n  %s\ndef found_rangeRejects : Bool := %v\n\n", rej, rejOk)
		if !rejOk {
			missing = append(missing, "rangeRejects")
		}
		q := make([]string, len(missing))
		for i, m := range missing {
			q[i] = strconv.Quote(m)
		}
		b.WriteString("/-- the items emitted with their default because their place in the source was not recognised -/\ndef notRegenerated : List String := [" + strings.Join(q, ", ") + "]\n\n")
		if len(os.Args) >= 4 {
			fb, _ := json.MarshalIndent(map[string]interface{}{"not_regenerated:SortConsts.lean": missing}, "", " ")
			os.MkdirAll(filepath.Dir(os.Args[3]), 0o755)
			os.WriteFile(filepath.Join(filepath.Dir(os.Args[3]), "facts_c17.json"), fb, 0o644)
		}
		b.WriteString("/-- structural fingerprint of a function (information only — nothing is proved about it) -/\nstructure Fp where\n  calls : List String\n  ifs : Nat\n  fors : Nat\n  returns : Nat\n  indexes : Nat\n  slices : Nat\n  swaps : Nat\n  lits : List Nat\n  deriving Repr\n\n")
		fps := append(c17Fingerprints(ip, "ints"), c17Fingerprints(sp, "sortints")...)
		b.WriteString("def fingerprints : List (String × Fp) := [\n  " + strings.Join(fps, ",\n  ") + "]\n\n")
		b.WriteString("end Gen.Sort\n")
		return "SortConsts.lean", b.String()
	})
}
