package main

// C07/C08: regenerates lean/Mamba/Gen/CodecConsts.lean from graph/encoding.go.
//
// Every constant the graph6 / sparse6 / Multicode formats dictate is located by function name and ROLE (the variable
// that holds g.N(), a comparison of that variable with a literal inside an if/else-if chain, the right-hand sides of
// the header assignments s[k] = ..., the literal passed to strings.HasPrefix, ...), never by line or statement number,
// and emitted twice:
//   - as `def`s in namespace Gen.Codec (for information and for statements), and
//   - as term macros `gc_<name>` that expand to the literal (or to the translated expression) at the place where
//     lean/Mamba/Model/Codec.lean uses them — the model is therefore re-elaborated with the values the source has NOW,
//     and every proof in Lemmas/ and Props/ is re-checked against them.
// An item whose shape is not recognised falls back to its hand-written default (c07defaults): the model is then what it
// was before regeneration and only the correspondence ties that item to the code; the item is listed in
// `Gen.Codec.notRegenerated` and in facts.json (`not_regenerated:CodecConsts.lean`); no theorem depends on that list.
// Copies of one constant that are recognised but DISAGREE are reported through the proofs (see pick).
// Structural fingerprints of the modelled functions go to Gen/CodecFingerprints.lean, which nothing imports
// (information only, not a proof obligation). Capacity arguments of make(...) are not modelled and not extracted.

import (
	"fmt"
	"go/ast"
	"go/parser"
	"go/token"
	"math"
	"path/filepath"
	"sort"
	"strconv"
	"strings"
)

type c07gen struct {
	fset    *token.FileSet
	funcs   map[string]*ast.FuncDecl
	missing []string
	defs    strings.Builder // inside namespace Gen.Codec
	macros  strings.Builder // after the namespace
	names   map[string]bool
}

func (g *c07gen) miss(name string) {
	g.missing = append(g.missing, name)
}

// c07defaults: the hand-written value of every item (what the model contained before regeneration). It is emitted when
// the shape of the source is NOT recognised (the item is then listed in notRegenerated and only the correspondence
// ties it to the code, as before regeneration). A recognised shape always emits what the source says.
var c07defaults = map[string]string{
	"g6dMagic": "[62, 62, 103, 114, 97, 112, 104, 54, 60, 60]", "g6dMagicLen": "10", "g6dLo": "63", "g6dHi": "126",
	"g6dMark0": "126", "g6dMark1": "126", "g6dLen4": "4", "g6dLen8": "8", "g6dI1": "1", "g6dI4": "4", "g6dI8": "8",
	"g6dN1": "Codec.bsub $c0 63",
	"g6dN4": "(Codec.bsub $c1 63 <<< 12) + (Codec.bsub $c2 63 <<< 6) + Codec.bsub $c3 63",
	"g6dN8": "(Codec.bsub $c2 63 <<< 30) + (Codec.bsub $c3 63 <<< 24) + (Codec.bsub $c4 63 <<< 18) + (Codec.bsub $c5 63 <<< 12) + (Codec.bsub $c6 63 <<< 6) + Codec.bsub $c7 63",
	"g6dMaxN": "4294967296", "g6dLenPad": "5", "g6dLenGroup": "6", "g6dLenCmp": "$a > $b",
	"g6dBitGroup": "6", "g6dBitOff": "63", "g6dBitTop": "5",
	"g6eT0": "1", "g6eT1": "62", "g6eT4": "258047", "g6eT8": "68719476735", "g6eOff0": "63",
	"g6eHdr1": c07defaultHdr("$pre", 1), "g6eHdr4": c07defaultHdr("$pre", 4), "g6eHdr8": c07defaultHdr("$pre", 8),
	"g6eTop": "5", "g6eGroup": "6", "g6eOff": "63",
	"s6dMagic": "[62, 62, 115, 112, 97, 114, 115, 101, 54, 60, 60]", "s6dMagicLen": "11", "s6dLo": "63", "s6dHi": "126",
	"s6dColon": "58", "s6dColonLen": "1",
	"s6dMark0": "126", "s6dMark1": "126", "s6dLen4": "4", "s6dLen8": "8", "s6dI1": "1", "s6dI4": "4", "s6dI8": "8",
	"s6dN1": "Codec.bsub $c0 63",
	"s6dN4": "(Codec.bsub $c1 63 <<< 12) + (Codec.bsub $c2 63 <<< 6) + Codec.bsub $c3 63",
	"s6dN8": "(Codec.bsub $c2 63 <<< 30) + (Codec.bsub $c3 63 <<< 24) + (Codec.bsub $c4 63 <<< 18) + (Codec.bsub $c5 63 <<< 12) + (Codec.bsub $c6 63 <<< 6) + Codec.bsub $c7 63",
	"s6dKWidth": "64", "s6dKSub": "1", "s6dNumBitsGroup": "6", "s6dBitGroup": "6", "s6dBitOff": "63", "s6dBitTop": "5",
	"s6eT0": "1", "s6eT1": "62", "s6eT4": "258047", "s6eT8": "68719476735", "s6eOff0": "63", "s6eColon": "58",
	"s6eHdr1": c07defaultHdr("#[58]", 1), "s6eHdr4": c07defaultHdr("#[58]", 4), "s6eHdr8": c07defaultHdr("#[58]", 8),
	"s6eTop": "5", "s6eGroup": "6", "s6eOff": "63", "s6eKWidth": "64", "s6eKSub": "1",
	"s6ePadSet": "($n = 2 || $n = 4 || $n = 8 || $n = 16)", "s6ePadCmp": "$a ≥ $b",
	"s6ePadGroup": "6", "s6ePadOne": "1", "s6ePadEnd": "6",
	"mcMax": "255",
}

// c07defaultHdr: the hand-written header expression of the k-byte form, pushed onto start
func c07defaultHdr(start string, k int) string {
	push := func(acc, e string) string { return "((" + acc + ").push " + e + ")" }
	field := func(sh int) string {
		if sh == 0 {
			return "(Codec.badd (($n &&& 63) % 256) 63)"
		}
		return fmt.Sprintf("(Codec.badd ((($n >>> %d) &&& 63) %% 256) 63)", sh)
	}
	acc := start
	switch k {
	case 1:
		return push(acc, "(($n + 63) % 256)")
	case 4:
		acc = push(acc, "126")
		for _, sh := range []int{12, 6, 0} {
			acc = push(acc, field(sh))
		}
	case 8:
		acc = push(push(acc, "126"), "126")
		for _, sh := range []int{30, 24, 18, 12, 6, 0} {
			acc = push(acc, field(sh))
		}
	}
	return acc
}

func (g *c07gen) dflt(name string) string {
	d, ok := c07defaults[name]
	if !ok {
		die("c07: no default for %s", name)
	}
	return d
}

// nat emits a numeric constant: def + macro. ok=false -> the default, and the name goes to notRegenerated.
func (g *c07gen) nat(name string, v uint64, ok bool, doc string) {
	if g.names[name] {
		die("c07: constant %s emitted twice", name)
	}
	g.names[name] = true
	if !ok {
		g.miss(name)
		d, err := strconv.ParseUint(g.dflt(name), 10, 64)
		if err != nil {
			die("c07: default of %s is not a number", name)
		}
		v = d
	}
	fmt.Fprintf(&g.defs, "/-- %s -/\ndef %s : Nat := %d\n", doc, name, v)
	fmt.Fprintf(&g.macros, "macro \"gc_%s\" : term => `(%d)\n", name, v)
}

// pick: the value to emit for an item that occurs several times in the source. Not found at all -> (0, false) (default).
// All occurrences equal -> that value. Occurrences that DISAGREE are a recognised shape with a real inconsistency: emit
// one that differs from the hand-written value so that the proofs report it.
func (g *c07gen) pick(name string, vs []uint64) (uint64, bool) {
	if len(vs) == 0 {
		return 0, false
	}
	d, _ := strconv.ParseUint(g.dflt(name), 10, 64)
	for _, v := range vs {
		if v != d {
			return v, true
		}
	}
	return vs[0], true
}

// macro emits a term macro with parameters. ok=false -> the default body, and the name goes to notRegenerated.
func (g *c07gen) macro(name string, params []string, body string, ok bool, doc string) {
	if g.names[name] {
		die("c07: macro %s emitted twice", name)
	}
	g.names[name] = true
	if !ok {
		g.miss(name)
		body = g.dflt(name)
	}
	var sig strings.Builder
	fmt.Fprintf(&sig, "macro \"gc_%s\"", name)
	if len(params) > 0 {
		sig.WriteString(" \"(\"")
		for i, p := range params {
			if i > 0 {
				sig.WriteString(" \",\"")
			}
			fmt.Fprintf(&sig, " %s:term", p)
		}
		sig.WriteString(" \")\"")
	}
	// hygiene off: `Codec.badd` / `Codec.bsub` are defined later, in the model file, and must resolve where the macro is used
	fmt.Fprintf(&g.macros, "set_option hygiene false in\n/-- %s -/\n%s : term => `(%s)\n", doc, sig.String(), body)
}

func c07unparen(e ast.Expr) ast.Expr {
	for {
		p, ok := e.(*ast.ParenExpr)
		if !ok {
			return e
		}
		e = p.X
	}
}

func c07lit(e ast.Expr) (uint64, bool) {
	b, ok := c07unparen(e).(*ast.BasicLit)
	if !ok {
		return 0, false
	}
	switch b.Kind {
	case token.INT:
		v, err := strconv.ParseUint(b.Value, 0, 64)
		return v, err == nil
	case token.CHAR:
		s, err := strconv.Unquote(b.Value)
		if err != nil || len(s) != 1 {
			return 0, false
		}
		return uint64(s[0]), true
	}
	return 0, false
}

func c07float(e ast.Expr) (float64, bool) {
	b, ok := c07unparen(e).(*ast.BasicLit)
	if !ok || (b.Kind != token.FLOAT && b.Kind != token.INT) {
		return 0, false
	}
	v, err := strconv.ParseFloat(b.Value, 64)
	return v, err == nil
}

func c07ident(e ast.Expr) string {
	if id, ok := c07unparen(e).(*ast.Ident); ok {
		return id.Name
	}
	return ""
}

// c07call: name of the called function ("f" or "pkg.f") and its arguments
func c07call(e ast.Expr) (string, []ast.Expr) {
	c, ok := c07unparen(e).(*ast.CallExpr)
	if !ok {
		return "", nil
	}
	switch f := c.Fun.(type) {
	case *ast.Ident:
		return f.Name, c.Args
	case *ast.SelectorExpr:
		return c07ident(f.X) + "." + f.Sel.Name, c.Args
	}
	return "", nil
}

// c07conv strips conversions like uint64(x), int(x), uint(x), byte(x)
func c07conv(e ast.Expr) ast.Expr {
	for {
		e = c07unparen(e)
		name, args := c07call(e)
		if len(args) == 1 && (name == "uint64" || name == "int" || name == "uint" || name == "byte" || name == "float64") {
			e = args[0]
			continue
		}
		return e
	}
}

// c07index: s[K] with literal K on identifier arr
func c07index(e ast.Expr) (arr string, k uint64, ok bool) {
	ix, isIx := c07unparen(e).(*ast.IndexExpr)
	if !isIx {
		return "", 0, false
	}
	k, ok = c07lit(ix.Index)
	return c07ident(ix.X), k, ok
}

func c07lits(n ast.Node) []uint64 {
	var out []uint64
	ast.Inspect(n, func(x ast.Node) bool {
		if b, ok := x.(*ast.BasicLit); ok && (b.Kind == token.INT || b.Kind == token.CHAR) {
			if v, ok := c07lit(b); ok {
				out = append(out, v)
			}
		}
		return true
	})
	return out
}

func c07allEq(v []uint64) bool {
	for _, x := range v {
		if x != v[0] {
			return false
		}
	}
	return len(v) > 0
}

func c07hasReturn(b *ast.BlockStmt) bool {
	for _, s := range b.List {
		if _, ok := s.(*ast.ReturnStmt); ok {
			return true
		}
	}
	return false
}

// c07le normalises `x <= K` / `x < K` to the largest x that satisfies it.
func c07le(op token.Token, k uint64) (uint64, bool) {
	switch op {
	case token.LEQ:
		return k, true
	case token.LSS:
		if k == 0 {
			return 0, false
		}
		return k - 1, true
	}
	return 0, false
}

// c07nVar: the local that receives g.N()
func c07nVar(fn *ast.FuncDecl) string {
	name := ""
	ast.Inspect(fn.Body, func(x ast.Node) bool {
		if a, ok := x.(*ast.AssignStmt); ok && len(a.Lhs) == 1 && len(a.Rhs) == 1 && name == "" {
			if f, _ := c07call(a.Rhs[0]); strings.HasSuffix(f, ".N") {
				name = c07ident(a.Lhs[0])
			}
		}
		return true
	})
	return name
}

// c07chain: the if / else-if chain that starts at the first `if <v> <= K` (or <) in the function
func c07chain(fn *ast.FuncDecl, v string) (conds []*ast.BinaryExpr, bodies []*ast.BlockStmt) {
	var first *ast.IfStmt
	ast.Inspect(fn.Body, func(x ast.Node) bool {
		if is, ok := x.(*ast.IfStmt); ok && first == nil {
			if be, ok := c07unparen(is.Cond).(*ast.BinaryExpr); ok && c07ident(be.X) == v && (be.Op == token.LEQ || be.Op == token.LSS) {
				if _, ok := c07lit(be.Y); ok {
					first = is
				}
			}
		}
		return first == nil
	})
	for is := first; is != nil; {
		be, ok := c07unparen(is.Cond).(*ast.BinaryExpr)
		if !ok || c07ident(be.X) != v {
			break
		}
		conds = append(conds, be)
		bodies = append(bodies, is.Body)
		next, _ := is.Else.(*ast.IfStmt)
		is = next
	}
	return
}

// c07hdrExpr translates the right-hand side of a header assignment to Lean (over the macro parameter $n).
func c07hdrExpr(e ast.Expr, n string) (string, bool) {
	e = c07unparen(e)
	if v, ok := c07lit(e); ok {
		return fmt.Sprint(v), true
	}
	inner := func(e ast.Expr) (string, bool) { // (n >> S) & M | n & M | n + L
		be, ok := c07unparen(e).(*ast.BinaryExpr)
		if !ok {
			return "", false
		}
		y, ok := c07lit(be.Y)
		if !ok {
			return "", false
		}
		switch be.Op {
		case token.ADD:
			if c07ident(be.X) == n {
				return fmt.Sprintf("($n + %d)", y), true
			}
		case token.AND:
			if c07ident(be.X) == n {
				return fmt.Sprintf("($n &&& %d)", y), true
			}
			if sh, ok := c07unparen(be.X).(*ast.BinaryExpr); ok && sh.Op == token.SHR && c07ident(sh.X) == n {
				if s, ok := c07lit(sh.Y); ok {
					return fmt.Sprintf("(($n >>> %d) &&& %d)", s, y), true
				}
			}
		}
		return "", false
	}
	if name, args := c07call(e); name == "byte" && len(args) == 1 { // byte(n + L)
		if s, ok := inner(args[0]); ok {
			return "(" + s + " % 256)", true
		}
		return "", false
	}
	if be, ok := e.(*ast.BinaryExpr); ok && be.Op == token.ADD { // byte(A) + L
		if name, args := c07call(be.X); name == "byte" && len(args) == 1 {
			if off, ok := c07lit(be.Y); ok {
				if s, ok := inner(args[0]); ok {
					return fmt.Sprintf("(Codec.badd (%s %% 256) %d)", s, off), true
				}
			}
		}
	}
	return "", false
}

// c07hdrBlock: the assignments s[k] = rhs of one header branch, ordered by k, as Lean pushes onto $pre
// (graph6) or, with fromEmpty, onto the one-element array made of the literal s[0] (sparse6: the ':').
func c07hdrBlock(b *ast.BlockStmt, n string, fromEmpty bool) (string, bool) {
	type asg struct {
		k   uint64
		rhs ast.Expr
	}
	var as []asg
	for _, s := range b.List {
		a, ok := s.(*ast.AssignStmt)
		if !ok || len(a.Lhs) != 1 || len(a.Rhs) != 1 || a.Tok != token.ASSIGN {
			continue
		}
		if _, k, ok := c07index(a.Lhs[0]); ok {
			as = append(as, asg{k, a.Rhs[0]})
		}
	}
	sort.Slice(as, func(i, j int) bool { return as[i].k < as[j].k })
	for i, a := range as {
		if a.k != uint64(i) {
			return "", false
		}
	}
	out := "$pre"
	if fromEmpty {
		if len(as) == 0 {
			return "", false
		}
		v, ok := c07lit(as[0].rhs)
		if !ok {
			return "", false
		}
		out = fmt.Sprintf("#[%d]", v)
		as = as[1:]
	}
	if len(as) == 0 {
		return "", false
	}
	for _, a := range as {
		s, ok := c07hdrExpr(a.rhs, n)
		if !ok {
			return "", false
		}
		out = "(" + out + ").push " + s
		out = "(" + out + ")"
	}
	return out, true
}

// c07encoder extracts thresholds, header bytes and bit-writer constants of Graph6Encode / Sparse6Encode.
func (g *c07gen) encoder(fnName, p string, sparse bool) {
	fn := g.funcs[fnName]
	n := c07nVar(fn)
	conds, bodies := c07chain(fn, n)
	names := []string{"T0", "T1", "T4", "T8"}
	docs := []string{"largest n written as a bare size byte without an edge list", "largest n with a 1-byte size header",
		"largest n with a 4-byte size header", "largest n with an 8-byte size header (above: panic)"}
	for i, nm := range names {
		var v uint64
		ok := false
		if n != "" && i < len(conds) && len(conds) == 4 {
			if k, isLit := c07lit(conds[i].Y); isLit {
				v, ok = c07le(conds[i].Op, k)
			}
		}
		g.nat(p+nm, v, ok, fnName+": "+docs[i])
	}
	// the n <= T0 branch: returned bytes
	var colon uint64
	colonOK := false
	off0, off0OK := uint64(0), false
	if len(bodies) == 4 {
		ast.Inspect(bodies[0], func(x ast.Node) bool {
			if r, ok := x.(*ast.ReturnStmt); ok && len(r.Results) == 1 {
				ast.Inspect(r.Results[0], func(y ast.Node) bool {
					if cl, ok := y.(*ast.CompositeLit); ok && len(cl.Elts) >= 1 {
						colon, colonOK = c07lit(cl.Elts[0])
					}
					if be, ok := y.(*ast.BinaryExpr); ok && be.Op == token.ADD && c07ident(be.X) == n {
						off0, off0OK = c07lit(be.Y)
					}
					return true
				})
			}
			return true
		})
	}
	g.nat(p+"Off0", off0, off0OK, fnName+": offset added to n in the n <= T0 case")
	if sparse {
		g.nat(p+"Colon", colon, colonOK, fnName+": the first byte ':' in the n <= T0 case")
	}
	for i, nm := range []string{"Hdr1", "Hdr4", "Hdr8"} {
		body, ok := "", false
		if len(bodies) == 4 {
			body, ok = c07hdrBlock(bodies[i+1], n, sparse)
		}
		if sparse {
			g.macro(p+nm, []string{"n"}, body, ok, fnName+": ':' and the header bytes of the "+nm[3:]+"-byte form")
		} else {
			g.macro(p+nm, []string{"pre", "n"}, body, ok, fnName+": the header bytes of the "+nm[3:]+"-byte form pushed onto pre")
		}
	}
	// bit writer: 1 << uint(TOP - idx); idx == GROUP; append(s, b+OFF)
	var tops, groups, offs []uint64
	idxVars := map[string]bool{}
	ast.Inspect(fn.Body, func(x ast.Node) bool {
		if be, ok := x.(*ast.BinaryExpr); ok && be.Op == token.SHL {
			if one, ok := c07lit(be.X); ok && one == 1 {
				if sub, ok := c07conv(be.Y).(*ast.BinaryExpr); ok && sub.Op == token.SUB {
					if t, ok := c07lit(sub.X); ok && c07ident(sub.Y) != "" {
						tops = append(tops, t)
						idxVars[c07ident(sub.Y)] = true
					}
				}
			}
		}
		return true
	})
	ast.Inspect(fn.Body, func(x ast.Node) bool {
		if is, ok := x.(*ast.IfStmt); ok {
			if be, ok := c07unparen(is.Cond).(*ast.BinaryExpr); ok && be.Op == token.EQL && idxVars[c07ident(be.X)] {
				flushes := false // the body appends the finished byte
				ast.Inspect(is.Body, func(y ast.Node) bool {
					if name, _ := c07call(nodeExpr(y)); name == "append" {
						flushes = true
					}
					return true
				})
				if v, ok := c07lit(be.Y); ok && flushes {
					groups = append(groups, v)
				}
			}
		}
		if name, args := c07call(nodeExpr(x)); name == "append" && len(args) == 2 {
			if be, ok := c07unparen(args[1]).(*ast.BinaryExpr); ok && be.Op == token.ADD && c07ident(be.X) != "" {
				if v, ok := c07lit(be.Y); ok {
					offs = append(offs, v)
				}
			}
		}
		return true
	})
	first := func(v []uint64) uint64 {
		if len(v) > 0 {
			return v[0]
		}
		return 0
	}
	// the three belong together: recognised only if the whole bit writer is there
	writer := len(tops) > 0 && len(groups) > 0 && len(offs) > 0
	top, _ := g.pick(p+"Top", tops)
	grp, _ := g.pick(p+"Group", groups)
	off, _ := g.pick(p+"Off", offs)
	g.nat(p+"Top", top, writer, fnName+": bit position of the first bit of a group (1 << uint(Top - idx)), all occurrences")
	g.nat(p+"Group", grp, writer, fnName+": number of bits per byte (idx == Group flushes), all occurrences")
	g.nat(p+"Off", off, writer, fnName+": offset added to a 6-bit group (append(s, b+Off)), all occurrences")
	if !sparse {
		return
	}
	// k := 64 - bits.LeadingZeros64(uint64(n - KSub))
	g.kSub(fn, p, fnName)
	// padding rule: if (n == a || n == b || ...) && Group - idx >= k + 1
	var set []uint64
	cmp, cmpOK := "", false
	pg, pgOK, one, oneOK := uint64(0), false, uint64(0), false
	ast.Inspect(fn.Body, func(x ast.Node) bool {
		is, ok := x.(*ast.IfStmt)
		if !ok || len(set) > 0 {
			return true
		}
		and, ok := c07unparen(is.Cond).(*ast.BinaryExpr)
		if !ok || and.Op != token.LAND {
			return true
		}
		var s []uint64
		good := true
		var ors func(e ast.Expr)
		ors = func(e ast.Expr) {
			be, ok := c07unparen(e).(*ast.BinaryExpr)
			if !ok {
				good = false
				return
			}
			if be.Op == token.LOR {
				ors(be.X)
				ors(be.Y)
				return
			}
			if v, ok := c07lit(be.Y); ok && be.Op == token.EQL && c07ident(be.X) == n {
				s = append(s, v)
				return
			}
			good = false
		}
		ors(and.X)
		c, ok := c07unparen(and.Y).(*ast.BinaryExpr)
		if !good || len(s) == 0 || !ok {
			return true
		}
		set = s
		switch c.Op {
		case token.GEQ:
			cmp, cmpOK = "$a ≥ $b", true
		case token.GTR:
			cmp, cmpOK = "$a > $b", true
		}
		if l, ok := c07unparen(c.X).(*ast.BinaryExpr); ok && l.Op == token.SUB && idxVars[c07ident(l.Y)] {
			pg, pgOK = c07lit(l.X)
		}
		if r, ok := c07unparen(c.Y).(*ast.BinaryExpr); ok && r.Op == token.ADD && c07ident(r.X) != "" {
			one, oneOK = c07lit(r.Y)
		}
		return true
	})
	parts := make([]string, len(set))
	strs := make([]string, len(set))
	for i, v := range set {
		parts[i] = fmt.Sprintf("$n = %d", v)
		strs[i] = fmt.Sprint(v)
	}
	fmt.Fprintf(&g.defs, "/-- %s: the values of n for which the special padding rule applies -/\ndef %sPadSet : List Nat := [%s]\n", fnName, p, strings.Join(strs, ", "))
	g.macro(p+"PadSet", []string{"n"}, "("+strings.Join(parts, " || ")+")", len(set) > 0, fnName+": n is one of the values of the padding rule")
	g.macro(p+"PadCmp", []string{"a", "b"}, cmp, cmpOK, fnName+": the comparison `bits left in the byte` ? `k+1` of the padding rule")
	fmt.Fprintf(&g.defs, "/-- %s: the operator of the padding comparison -/\ndef %sPadCmpOp : String := %q\n", fnName, p, strings.TrimSpace(strings.NewReplacer("$a", "", "$b", "").Replace(cmp)))
	g.nat(p+"PadGroup", pg, pgOK, fnName+": bits per byte in the padding comparison (PadGroup - idx)")
	g.nat(p+"PadOne", one, oneOK, fnName+": the 1 of `k + 1` in the padding comparison")
	// the padding loop: for j := idx; j < END; j++
	var ends []uint64
	ast.Inspect(fn.Body, func(x ast.Node) bool {
		if f, ok := x.(*ast.ForStmt); ok && f.Init != nil {
			if a, ok := f.Init.(*ast.AssignStmt); ok && len(a.Rhs) == 1 && idxVars[c07ident(a.Rhs[0])] {
				if be, ok := c07unparen(f.Cond).(*ast.BinaryExpr); ok && be.Op == token.LSS {
					if v, ok := c07lit(be.Y); ok {
						ends = append(ends, v)
					}
				}
			}
		}
		return true
	})
	g.nat(p+"PadEnd", first(ends), len(ends) == 1, fnName+": end of the loop that fills the last byte with 1-bits")
}

func nodeExpr(x ast.Node) ast.Expr {
	if e, ok := x.(ast.Expr); ok {
		return e
	}
	return nil
}

// kSub: the literal subtracted from n inside bits.LeadingZeros64(...) and the literal it is subtracted from
func (g *c07gen) kSub(fn *ast.FuncDecl, p, fnName string) {
	sub, subOK, w, wOK := uint64(0), false, uint64(0), false
	ast.Inspect(fn.Body, func(x ast.Node) bool {
		be, ok := x.(*ast.BinaryExpr)
		if !ok || be.Op != token.SUB {
			return true
		}
		name, args := c07call(be.Y)
		if name != "bits.LeadingZeros64" || len(args) != 1 {
			return true
		}
		w, wOK = c07lit(be.X)
		arg := c07conv(args[0])
		if c07ident(arg) != "" {
			sub, subOK = 0, true // bits of n itself
		} else if s, ok := arg.(*ast.BinaryExpr); ok && s.Op == token.SUB && c07ident(c07conv(s.X)) != "" {
			sub, subOK = c07lit(s.Y)
		}
		return true
	})
	g.nat(p+"KWidth", w, wOK, fnName+": k = KWidth - LeadingZeros64(n - KSub)")
	g.nat(p+"KSub", sub, subOK, fnName+": k is the number of bits of n - KSub")
}

// c07decExpr translates the expression assigned to n in a decoder to Lean over the macro parameters $c0..$c7.
func c07decExpr(e ast.Expr, arr string, used map[uint64]bool) (string, bool) {
	e = c07conv(e)
	if be, ok := e.(*ast.BinaryExpr); ok {
		switch be.Op {
		case token.ADD:
			a, ok1 := c07decExpr(be.X, arr, used)
			b, ok2 := c07decExpr(be.Y, arr, used)
			return a + " + " + b, ok1 && ok2
		case token.SHL:
			a, ok1 := c07decExpr(be.X, arr, used)
			s, ok2 := c07lit(be.Y)
			return fmt.Sprintf("(%s <<< %d)", a, s), ok1 && ok2
		case token.SUB:
			if a, k, ok := c07index(be.X); ok && a == arr {
				if l, ok := c07lit(be.Y); ok {
					used[k] = true
					return fmt.Sprintf("Codec.bsub $c%d %d", k, l), true
				}
			}
		}
	}
	return "", false
}

// c07decoder extracts the constants of Graph6Decode / Sparse6Decode.
func (g *c07gen) decoder(fnName, p string, sparse bool) {
	fn := g.funcs[fnName]
	arr := ""
	if len(fn.Type.Params.List) == 1 && len(fn.Type.Params.List[0].Names) == 1 {
		arr = fn.Type.Params.List[0].Names[0].Name
	}
	// optional header
	magic, magicOK, mlen, mlenOK := "", false, uint64(0), false
	ast.Inspect(fn.Body, func(x ast.Node) bool {
		is, ok := x.(*ast.IfStmt)
		if !ok {
			return true
		}
		if name, args := c07call(is.Cond); name == "strings.HasPrefix" && len(args) == 2 {
			if b, ok := args[1].(*ast.BasicLit); ok && b.Kind == token.STRING {
				if s, err := strconv.Unquote(b.Value); err == nil {
					magic, magicOK = s, true
				}
			}
			ast.Inspect(is.Body, func(y ast.Node) bool {
				if sl, ok := y.(*ast.SliceExpr); ok && sl.High == nil && sl.Low != nil {
					mlen, mlenOK = c07lit(sl.Low)
				}
				return true
			})
		}
		return true
	})
	bytes := make([]string, len(magic))
	for i := 0; i < len(magic); i++ {
		bytes[i] = fmt.Sprint(magic[i])
	}
	magicStr := magic
	if !(magicOK && len(magic) > 0) {
		magicStr = map[string]string{"g6d": ">>graph6<<", "s6d": ">>sparse6<<"}[p]
	}
	fmt.Fprintf(&g.defs, "/-- %s: the optional header string -/\ndef %sMagicStr : String := %q\n", fnName, p, magicStr)
	g.macro(p+"Magic", nil, "["+strings.Join(bytes, ", ")+"]", magicOK && len(magic) > 0, fnName+": the bytes of the optional header")
	g.nat(p+"MagicLen", mlen, mlenOK, fnName+": number of bytes dropped when the optional header is present")
	// byte range: s[i] < LO || s[i] > HI inside a for loop
	lo, loOK, hi, hiOK := uint64(0), false, uint64(0), false
	ast.Inspect(fn.Body, func(x ast.Node) bool {
		f, ok := x.(*ast.ForStmt)
		if !ok {
			return true
		}
		ast.Inspect(f.Body, func(y ast.Node) bool {
			is, ok := y.(*ast.IfStmt)
			if !ok {
				return true
			}
			or, ok := c07unparen(is.Cond).(*ast.BinaryExpr)
			if !ok || or.Op != token.LOR {
				return true
			}
			for _, side := range []ast.Expr{or.X, or.Y} {
				c, ok := c07unparen(side).(*ast.BinaryExpr)
				if !ok {
					continue
				}
				if _, isIx := c07unparen(c.X).(*ast.IndexExpr); !isIx {
					continue
				}
				v, ok := c07lit(c.Y)
				if !ok {
					continue
				}
				switch c.Op {
				case token.LSS:
					lo, loOK = v, true
				case token.LEQ:
					lo, loOK = v+1, true
				case token.GTR:
					hi, hiOK = v, true
				case token.GEQ:
					if v > 0 {
						hi, hiOK = v-1, true
					}
				}
			}
			return true
		})
		return true
	})
	g.nat(p+"Lo", lo, loOK, fnName+": smallest admissible byte")
	g.nat(p+"Hi", hi, hiOK, fnName+": largest admissible byte")
	// s[K] != L: with a returning body = the ':' check, with an assigning body = long-header marker tests
	var marks []uint64
	colon, colonOK, cdrop, cdropOK := uint64(0), false, uint64(0), false
	var lens []uint64
	ast.Inspect(fn.Body, func(x ast.Node) bool {
		is, ok := x.(*ast.IfStmt)
		if !ok {
			return true
		}
		c, ok := c07unparen(is.Cond).(*ast.BinaryExpr)
		if !ok {
			return true
		}
		if _, _, isIx := c07index(c.X); isIx && c.Op == token.NEQ {
			if v, ok := c07lit(c.Y); ok {
				if c07hasReturn(is.Body) {
					colon, colonOK = v, true
				} else {
					marks = append(marks, v)
				}
			}
		}
		if name, _ := c07call(c.X); name == "len" && c.Op == token.LSS && c07hasReturn(is.Body) {
			if v, ok := c07lit(c.Y); ok {
				lens = append(lens, v)
			}
		}
		return true
	})
	if sparse {
		// s = s[1:] after the ':' test
		ast.Inspect(fn.Body, func(x ast.Node) bool {
			if a, ok := x.(*ast.AssignStmt); ok && len(a.Rhs) == 1 && len(a.Lhs) == 1 && c07ident(a.Lhs[0]) == arr {
				if sl, ok := a.Rhs[0].(*ast.SliceExpr); ok && sl.High == nil && sl.Low != nil {
					if v, ok := c07lit(sl.Low); ok && !(mlenOK && v == mlen) {
						cdrop, cdropOK = v, true
					}
				}
			}
			return true
		})
		g.nat(p+"Colon", colon, colonOK, fnName+": the first byte ':'")
		g.nat(p+"ColonLen", cdrop, cdropOK, fnName+": bytes dropped after the ':' test")
	}
	mk := func(i int) (uint64, bool) {
		if len(marks) == 2 {
			return marks[i], true
		}
		return 0, false
	}
	m0, ok0 := mk(0)
	m1, ok1 := mk(1)
	g.nat(p+"Mark0", m0, ok0, fnName+": s[0] != Mark0 means a 1-byte size header")
	g.nat(p+"Mark1", m1, ok1, fnName+": s[1] != Mark1 means a 4-byte size header")
	ln := func(i int) (uint64, bool) {
		if len(lens) == 2 {
			return lens[i], true
		}
		return 0, false
	}
	l4, okl4 := ln(0)
	l8, okl8 := ln(1)
	g.nat(p+"Len4", l4, okl4, fnName+": minimal length for a 4-byte size header")
	g.nat(p+"Len8", l8, okl8, fnName+": minimal length for an 8-byte size header")
	// n = EXPR over s[..]; i = L
	var nExprs []ast.Expr
	var iVals []uint64
	nName := ""
	ast.Inspect(fn.Body, func(x ast.Node) bool {
		a, ok := x.(*ast.AssignStmt)
		if !ok || a.Tok != token.ASSIGN || len(a.Lhs) != 1 || len(a.Rhs) != 1 {
			return true
		}
		hasIx := false
		ast.Inspect(a.Rhs[0], func(y ast.Node) bool {
			if _, ok := y.(*ast.IndexExpr); ok {
				hasIx = true
			}
			return true
		})
		if hasIx && c07ident(a.Lhs[0]) != "" && (nName == "" || nName == c07ident(a.Lhs[0])) {
			if _, isIxL := a.Lhs[0].(*ast.IndexExpr); !isIxL {
				nName = c07ident(a.Lhs[0])
				nExprs = append(nExprs, a.Rhs[0])
			}
		} else if v, ok := c07lit(a.Rhs[0]); ok && c07ident(a.Lhs[0]) != "" && len(nExprs) > 0 && len(iVals) < 3 {
			iVals = append(iVals, v)
		}
		return true
	})
	want := [][]uint64{{0}, {1, 2, 3}, {2, 3, 4, 5, 6, 7}}
	for i, nm := range []string{"N1", "N4", "N8"} {
		body, ok := "", false
		params := make([]string, len(want[i]))
		for j, k := range want[i] {
			params[j] = fmt.Sprintf("c%d", k)
		}
		if len(nExprs) == 3 {
			used := map[uint64]bool{}
			body, ok = c07decExpr(nExprs[i], arr, used)
			if len(used) != len(want[i]) {
				ok = false
			}
			for _, k := range want[i] {
				if !used[k] {
					ok = false
				}
			}
		}
		g.macro(p+nm, params, body, ok, fnName+": the value of n read from a "+nm[1:]+"-byte size header (c_k = s[k])")
		v, okv := uint64(0), false
		if len(iVals) == 3 {
			v, okv = iVals[i], true
		}
		g.nat(p+"I"+nm[1:], v, okv, fnName+": position of the first data byte after a "+nm[1:]+"-byte size header")
	}
	if !sparse {
		// MaxN := A + math.Sqrt(B*float64(maxInt)+C); float64(n) > MaxN
		maxN, maxOK := uint64(0), false
		ast.Inspect(fn.Body, func(x ast.Node) bool {
			be, ok := x.(*ast.BinaryExpr)
			if !ok || be.Op != token.ADD {
				return true
			}
			a, okA := c07float(be.X)
			name, args := c07call(be.Y)
			if !okA || name != "math.Sqrt" || len(args) != 1 {
				return true
			}
			in, ok := c07unparen(args[0]).(*ast.BinaryExpr)
			if !ok || in.Op != token.ADD {
				return true
			}
			c, okC := c07float(in.Y)
			mul, ok := c07unparen(in.X).(*ast.BinaryExpr)
			if !ok || mul.Op != token.MUL || !okC {
				return true
			}
			b, okB := c07float(mul.X)
			if !okB || c07ident(c07conv(mul.Y)) != "maxInt" {
				return true
			}
			// evaluated exactly as the Go code evaluates it (float64, maxInt = 2^63-1)
			val := a + math.Sqrt(b*float64(int64(math.MaxInt64))+c)
			if val >= 0 && val < 1e18 {
				maxN, maxOK = uint64(math.Floor(val)), true
			}
			return true
		})
		cmpOK := false
		ast.Inspect(fn.Body, func(x ast.Node) bool {
			if be, ok := x.(*ast.BinaryExpr); ok && be.Op == token.GTR && c07ident(be.Y) == "MaxN" {
				cmpOK = true
			}
			return true
		})
		g.nat(p+"MaxN", maxN, maxOK && cmpOK, fnName+": an 8-byte header with n > MaxN (= floor of the float bound, compared with >) is rejected")
		// length check: i + int(n*(n-1)/2 + PAD)/GROUP > len(s)
		pad, padOK, grp, grpOK := uint64(0), false, uint64(0), false
		cmp, cmpOK2 := "", false
		ast.Inspect(fn.Body, func(x ast.Node) bool {
			is, ok := x.(*ast.IfStmt)
			if !ok {
				return true
			}
			c, ok := c07unparen(is.Cond).(*ast.BinaryExpr)
			if !ok {
				return true
			}
			if name, _ := c07call(c.Y); name != "len" {
				return true
			}
			ls := c07lits(c.X)
			if len(ls) != 4 {
				return true
			}
			pad, padOK, grp, grpOK = ls[2], true, ls[3], true
			switch c.Op {
			case token.GTR:
				cmp, cmpOK2 = "$a > $b", true
			case token.GEQ:
				cmp, cmpOK2 = "$a ≥ $b", true
			}
			return true
		})
		g.nat(p+"LenPad", pad, padOK, fnName+": rounding term of the length check (bits + LenPad) / LenGroup")
		g.nat(p+"LenGroup", grp, grpOK, fnName+": bits per byte in the length check")
		g.macro(p+"LenCmp", []string{"a", "b"}, cmp, cmpOK2, fnName+": `bytes needed` ? len(s) gives the error \"too short\"")
		// edges[j] = ((s[i+j/G] - OFF) & (1 << uint(TOP-(j%G)))) >> uint(TOP-(j%G))
		var ls []uint64
		ast.Inspect(fn.Body, func(x ast.Node) bool {
			if a, ok := x.(*ast.AssignStmt); ok && len(a.Lhs) == 1 && len(a.Rhs) == 1 {
				if _, isIx := a.Lhs[0].(*ast.IndexExpr); isIx {
					if be, ok := c07unparen(a.Rhs[0]).(*ast.BinaryExpr); ok && be.Op == token.SHR {
						ls = c07lits(a.Rhs[0])
					}
				}
			}
			return true
		})
		okBits := len(ls) == 7 && ls[2] == 1
		var bgrp, off, top uint64
		if okBits { // copies that disagree are reported through the proofs (pick)
			bgrp, _ = g.pick(p+"BitGroup", []uint64{ls[0], ls[4], ls[6]})
			off = ls[1]
			top, _ = g.pick(p+"BitTop", []uint64{ls[3], ls[5]})
		}
		g.nat(p+"BitGroup", bgrp, okBits, fnName+": bits per byte when reading edge bit j (j/BitGroup, j%BitGroup)")
		g.nat(p+"BitOff", off, okBits, fnName+": offset subtracted from a byte before reading its bits")
		g.nat(p+"BitTop", top, okBits, fnName+": bit position of the first bit of a byte")
		return
	}
	g.kSub(fn, p, fnName)
	// numBits := G * (len(s) - i); readBit: ((s[i+pos/G] - OFF) >> uint(TOP-pos%G)) & 1
	nb, nbOK := uint64(0), false
	var ls []uint64
	ast.Inspect(fn.Body, func(x ast.Node) bool {
		if a, ok := x.(*ast.AssignStmt); ok && len(a.Lhs) == 1 && len(a.Rhs) == 1 {
			if be, ok := c07unparen(a.Rhs[0]).(*ast.BinaryExpr); ok {
				if be.Op == token.MUL {
					if v, ok := c07lit(be.X); ok {
						if s, ok := c07unparen(be.Y).(*ast.BinaryExpr); ok && s.Op == token.SUB {
							if name, _ := c07call(s.X); name == "len" {
								nb, nbOK = v, true
							}
						}
					}
				}
				if be.Op == token.AND {
					if one, ok := c07lit(be.Y); ok && one == 1 {
						ls = c07lits(be.X)
					}
				}
			}
		}
		return true
	})
	okBits := len(ls) == 4
	var grp, off, top uint64
	if okBits {
		grp, _ = g.pick(p+"BitGroup", []uint64{ls[0], ls[3]})
		off, top = ls[1], ls[2]
	}
	g.nat(p+"NumBitsGroup", nb, nbOK, fnName+": bits per byte in numBits")
	g.nat(p+"BitGroup", grp, okBits, fnName+": bits per byte in readBit (pos/BitGroup, pos%BitGroup)")
	g.nat(p+"BitOff", off, okBits, fnName+": offset subtracted from a byte before reading its bits")
	g.nat(p+"BitTop", top, okBits, fnName+": bit position of the first bit of a byte")
}

// c07fingerprint: ordered calls and statement counts (information only)
func c07fingerprint(fn *ast.FuncDecl) string {
	var calls []string
	cnt := map[string]int{}
	ast.Inspect(fn.Body, func(x ast.Node) bool {
		switch n := x.(type) {
		case *ast.CallExpr:
			if name, _ := c07call(n); name != "" {
				calls = append(calls, name)
			}
		case *ast.IfStmt:
			cnt["if"]++
		case *ast.ForStmt, *ast.RangeStmt:
			cnt["for"]++
		case *ast.ReturnStmt:
			cnt["return"]++
		case *ast.IndexExpr:
			cnt["index"]++
		case *ast.AssignStmt, *ast.IncDecStmt:
			cnt["assign"]++
		case *ast.BranchStmt:
			cnt["branch"]++
		}
		return true
	})
	return fmt.Sprintf("calls=%s if=%d for=%d return=%d index=%d assign=%d branch=%d", strings.Join(calls, ","),
		cnt["if"], cnt["for"], cnt["return"], cnt["index"], cnt["assign"], cnt["branch"])
}

var c07modelled = []string{"Graph6Decode", "Graph6Encode", "Sparse6Decode", "Sparse6Encode", "MulticodeEncode",
	"MulticodeDecode", "MulticodeDecodeMultiple", "PruferEncode", "PruferDecode"}

func c07load(repo string) *c07gen {
	path := filepath.Join(repo, "graph", "encoding.go")
	fset := token.NewFileSet()
	f, err := parser.ParseFile(fset, path, nil, 0)
	if err != nil {
		die("c07: parse %s: %v", path, err)
	}
	g := &c07gen{fset: fset, funcs: map[string]*ast.FuncDecl{}, names: map[string]bool{}}
	for _, d := range f.Decls {
		if fd, ok := d.(*ast.FuncDecl); ok && fd.Recv == nil && fd.Body != nil {
			g.funcs[fd.Name.Name] = fd
		}
	}
	for _, n := range c07modelled {
		if g.funcs[n] == nil {
			die("c07: function %s not found in %s", n, path)
		}
	}
	return g
}

func init() {
	registerGen(func(repo string) (string, string) {
		g := c07load(repo)
		g.decoder("Graph6Decode", "g6d", false)
		g.encoder("Graph6Encode", "g6e", false)
		g.decoder("Sparse6Decode", "s6d", true)
		g.encoder("Sparse6Encode", "s6e", true)
		// MulticodeEncode: if n > MAX { panic }
		mx, mxOK := uint64(0), false
		fn := g.funcs["MulticodeEncode"]
		n := c07nVar(fn)
		ast.Inspect(fn.Body, func(x ast.Node) bool {
			if is, ok := x.(*ast.IfStmt); ok && !mxOK {
				if be, ok := c07unparen(is.Cond).(*ast.BinaryExpr); ok && c07ident(be.X) == n && n != "" {
					if v, ok := c07lit(be.Y); ok {
						switch be.Op {
						case token.GTR:
							mx, mxOK = v, true
						case token.GEQ:
							if v > 0 {
								mx, mxOK = v-1, true
							}
						}
					}
				}
			}
			return true
		})
		g.nat("mcMax", mx, mxOK, "MulticodeEncode: largest number of vertices (above: panic)")
		var b strings.Builder
		b.WriteString("/-! GENERATED by verif/extract (c07.go) from graph/encoding.go on every run — do not edit.\n")
		b.WriteString("Constants of the graph6 / sparse6 / Multicode codecs, as `def`s and as term macros `gc_<name>` used by\n")
		b.WriteString("Mamba/Model/Codec.lean. An item whose shape was not recognised in the source is listed in `notRegenerated` and has its\n")
		b.WriteString("hand-written default value (then only the correspondence ties it to the code). Nothing may depend on that list. -/\n")
		b.WriteString("namespace Gen.Codec\n\n")
		b.WriteString(g.defs.String())
		q := make([]string, len(g.missing))
		for i, m := range g.missing {
			q[i] = strconv.Quote(m)
		}
		fmt.Fprintf(&b, "\n/-- items whose shape in the source was not recognised: they have their hand-written default value (information only) -/\ndef notRegenerated : List String := [%s]\n", strings.Join(q, ", "))
		extraFacts["not_regenerated:CodecConsts.lean"] = append([]string{}, g.missing...)
		b.WriteString("\nend Gen.Codec\n\n")
		b.WriteString(g.macros.String())
		return "CodecConsts.lean", b.String()
	})
	registerGen(func(repo string) (string, string) {
		g := c07load(repo)
		var b strings.Builder
		b.WriteString("/-! GENERATED by verif/extract (c07.go) from graph/encoding.go — INFORMATION ONLY.\n")
		b.WriteString("Structural fingerprints of the modelled functions. Nothing imports this file; no theorem depends on it. -/\n")
		b.WriteString("namespace Gen.CodecFingerprints\n\n")
		for _, n := range c07modelled {
			fmt.Fprintf(&b, "def fp_%s : String := %q\n", n, c07fingerprint(g.funcs[n]))
		}
		b.WriteString("\nend Gen.CodecFingerprints\n")
		return "CodecFingerprints.lean", b.String()
	})
}
