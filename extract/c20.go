package main

// Gen/TspConsts.lean (property C20) from tsp/tsplib.go, func LIB.
//
// Extracted, located by role (tolerant of reformatting, renamed locals, a different partition of the header into
// write calls, `if _, err := …; err != nil` forms, dropped or added error checks):
//
//   - hdrWrites: the text written to the io.Writer parameter BEFORE the weight section (= before the
//     tabwriter.NewWriter call / the first `for`), one entry per write call, each a list of segments
//     (`some lit` = literal text, `none` = the decimal value of the dimension parameter).  Recognised writes:
//     io.WriteString(w, lit), fmt.Fprint(w, lit), fmt.Fprintf(w, fmt, n) with only %d (of the dimension parameter)
//     and %% in fmt.  hdrBeforeN / hdrAfterN: the concatenation, split at the dimension.
//   - trailerWrites: the literal text written to the io.Writer parameter AFTER the loops.
//   - the arguments of tabwriter.NewWriter(w, minwidth, tabwidth, padding, padchar, flags) as constants.
//   - fpLIB: an informational fingerprint (ordered call names / error checks).  NOT used by any theorem.
//
// When something is not recognisable the corresponding found_* is false and placeholders are emitted (never a guess);
// the model then keeps its own hand-written value for that item (and is tied to the code by the correspondence only).
// Calls that are not writes of literal text (w.Write(buf), buf.WriteTo(w), …) are ignored.

import (
	"fmt"
	"go/ast"
	"go/constant"
	"go/importer"
	"go/parser"
	"go/token"
	"go/types"
	"path/filepath"
	"strconv"
	"strings"
)

func c20LeanString(s string) string {
	var b strings.Builder
	b.WriteByte('"')
	for _, r := range s {
		switch {
		case r == '\n':
			b.WriteString("\\n")
		case r == '\t':
			b.WriteString("\\t")
		case r == '"':
			b.WriteString("\\\"")
		case r == '\\':
			b.WriteString("\\\\")
		case r < 0x20 || r == 0x7f:
			fmt.Fprintf(&b, "\\x%02x", r)
		default:
			b.WriteRune(r)
		}
	}
	b.WriteByte('"')
	return b.String()
}

func c20LeanChar(r rune) string {
	switch {
	case r == '\n':
		return "'\\n'"
	case r == '\t':
		return "'\\t'"
	case r == '\'':
		return "'\\''"
	case r == '\\':
		return "'\\\\'"
	case r < 0x20 || r == 0x7f:
		return fmt.Sprintf("'\\x%02x'", r)
	}
	return "'" + string(r) + "'"
}

type c20Seg struct {
	lit string
	isN bool
}

func init() {
	registerGen(func(repo string) (string, string) {
		fset := token.NewFileSet()
		path := filepath.Join(repo, "tsp", "tsplib.go")
		file, err := parser.ParseFile(fset, path, nil, 0)
		if err != nil {
			die("c20: parse %s: %v", path, err)
		}
		info := &types.Info{Types: map[ast.Expr]types.TypeAndValue{}, Uses: map[*ast.Ident]types.Object{}}
		conf := types.Config{Importer: importer.ForCompiler(fset, "source", nil), Error: func(error) {}}
		conf.Check("tsp", fset, []*ast.File{file}, info)

		var lib *ast.FuncDecl
		for _, d := range file.Decls {
			if fd, ok := d.(*ast.FuncDecl); ok && fd.Recv == nil && fd.Name.Name == "LIB" {
				lib = fd
			}
		}
		if lib == nil || lib.Body == nil {
			die("c20: func LIB not found in %s", path)
		}
		// parameter names by role: the io.Writer (first parameter), the dimension (second)
		var params []string
		for _, f := range lib.Type.Params.List {
			for _, n := range f.Names {
				params = append(params, n.Name)
			}
		}
		if len(params) < 3 {
			die("c20: LIB does not have the parameters (w, n, weights)")
		}
		wName, nName := params[0], params[1]

		pkgOf := func(e ast.Expr) (pkg, name string) { // "io", "WriteString" for io.WriteString
			sel, ok := e.(*ast.SelectorExpr)
			if !ok {
				return "", ""
			}
			id, ok := sel.X.(*ast.Ident)
			if !ok {
				return "", ""
			}
			if pn, ok := info.Uses[id].(*types.PkgName); ok {
				return pn.Imported().Path(), sel.Sel.Name
			}
			return "", ""
		}
		constString := func(e ast.Expr) (string, bool) {
			tv, ok := info.Types[e]
			if !ok || tv.Value == nil || tv.Value.Kind() != constant.String {
				return "", false
			}
			return constant.StringVal(tv.Value), true
		}
		isIdent := func(e ast.Expr, name string) bool {
			id, ok := e.(*ast.Ident)
			return ok && id.Name == name
		}

		// one write to w: segments, or ok=false when it is a write to w of an unrecognised form
		writeOf := func(c *ast.CallExpr) (segs []c20Seg, isWrite, ok bool) {
			pkg, name := pkgOf(c.Fun)
			if len(c.Args) < 1 || !isIdent(c.Args[0], wName) {
				return nil, false, true
			}
			switch {
			case pkg == "io" && name == "WriteString" && len(c.Args) == 2,
				pkg == "fmt" && name == "Fprint" && len(c.Args) == 2:
				s, ok := constString(c.Args[1])
				if !ok {
					return nil, true, false
				}
				return []c20Seg{{lit: s}}, true, true
			case pkg == "fmt" && name == "Fprintf" && len(c.Args) >= 2:
				f, ok := constString(c.Args[1])
				if !ok {
					return nil, true, false
				}
				arg := 2
				cur := ""
				for i := 0; i < len(f); i++ {
					if f[i] != '%' {
						cur += string(f[i])
						continue
					}
					if i+1 >= len(f) {
						return nil, true, false
					}
					i++
					switch f[i] {
					case '%':
						cur += "%"
					case 'd':
						if arg >= len(c.Args) || !isIdent(c.Args[arg], nName) {
							return nil, true, false
						}
						arg++
						if cur != "" {
							segs = append(segs, c20Seg{lit: cur})
							cur = ""
						}
						segs = append(segs, c20Seg{isN: true})
					default:
						return nil, true, false
					}
				}
				if cur != "" {
					segs = append(segs, c20Seg{lit: cur})
				}
				if arg != len(c.Args) {
					return nil, true, false
				}
				return segs, true, true
			}
			// Any other call (w.Write(buf), section.WriteTo(w), bufio.NewWriter(w), tabwriter.NewWriter(w, …)) is not a
			// write of literal text: it contributes nothing to the extracted strings.  If it does write header bytes the
			// exact-bytes correspondence shows it; nothing is guessed here.
			return nil, false, true
		}

		var hdr, trailer [][]c20Seg
		foundHdr, foundTrailer := true, true
		var tw *ast.CallExpr
		phase := 0 // 0 header, 1 weight section seen
		fp := []string{}
		var visitStmt func(s ast.Stmt, top bool)
		visitStmt = func(s ast.Stmt, top bool) {
			if _, isFor := s.(*ast.ForStmt); isFor && top {
				phase = 1
			}
			if _, isRange := s.(*ast.RangeStmt); isRange && top {
				phase = 1
			}
			inLoop := false
			if _, isFor := s.(*ast.ForStmt); isFor {
				inLoop = true
			}
			ast.Inspect(s, func(n ast.Node) bool {
				switch x := n.(type) {
				case *ast.ForStmt:
					fp = append(fp, "for")
				case *ast.IfStmt:
					if be, ok := x.Cond.(*ast.BinaryExpr); ok && be.Op == token.NEQ && isIdent(be.X, "err") && isIdent(be.Y, "nil") {
						fp = append(fp, "if-err")
					} else {
						fp = append(fp, "if")
					}
				case *ast.ReturnStmt:
					fp = append(fp, "return")
				case *ast.CallExpr:
					pkg, name := pkgOf(x.Fun)
					if pkg != "" {
						fp = append(fp, filepath.Base(pkg)+"."+name)
					} else if sel, ok := x.Fun.(*ast.SelectorExpr); ok {
						fp = append(fp, "."+sel.Sel.Name)
					} else if id, ok := x.Fun.(*ast.Ident); ok {
						fp = append(fp, id.Name)
					}
					if pkg == "text/tabwriter" && name == "NewWriter" {
						tw = x
						phase = 1
						return true
					}
					segs, isWrite, ok := writeOf(x)
					if !isWrite && ok {
						return true
					}
					if inLoop {
						// a direct write to w inside the loops is outside what the model covers
						foundHdr, foundTrailer = false, false
						return true
					}
					if phase == 0 {
						if !ok {
							foundHdr = false
						} else {
							hdr = append(hdr, segs)
						}
					} else {
						if !ok {
							foundTrailer = false
						} else {
							trailer = append(trailer, segs)
						}
					}
				}
				return true
			})
		}
		for _, s := range lib.Body.List {
			visitStmt(s, true)
		}
		// the header must mention the dimension exactly once; the trailer not at all
		nCount := 0
		before, after := "", ""
		for _, w := range hdr {
			for _, sg := range w {
				if sg.isN {
					nCount++
				} else if nCount == 0 {
					before += sg.lit
				} else {
					after += sg.lit
				}
			}
		}
		if nCount != 1 {
			foundHdr = false
		}
		trailerLits := []string{}
		for _, w := range trailer {
			t := ""
			for _, sg := range w {
				if sg.isN {
					foundTrailer = false
				}
				t += sg.lit
			}
			trailerLits = append(trailerLits, t)
		}
		if len(trailer) == 0 {
			foundTrailer = false
		}

		// tabwriter.NewWriter(w, minwidth, tabwidth, padding, padchar, flags)
		foundTw := tw != nil && len(tw.Args) == 6
		var twv [5]int64
		if foundTw {
			for i := 0; i < 5; i++ {
				tv, ok := info.Types[tw.Args[i+1]]
				if !ok || tv.Value == nil {
					foundTw = false
					break
				}
				v, exact := constant.Int64Val(constant.ToInt(tv.Value))
				if !exact || v < 0 {
					foundTw = false
					break
				}
				twv[i] = v
			}
		}
		const alignRight = 4 // tabwriter.AlignRight; the value itself comes from go/types above, this only splits it
		var b strings.Builder
		b.WriteString("/-! GENERATED by /verif/extract (extract/c20.go) from tsp/tsplib.go on every run — do not edit. -/\n")
		b.WriteString("namespace Gen.Tsp\n\n")
		boolS := func(x bool) string {
			if x {
				return "true"
			}
			return "false"
		}
		b.WriteString("/-- the text written before the weight section was recognised -/\n")
		b.WriteString("def found_header : Bool := " + boolS(foundHdr) + "\n\n")
		b.WriteString("/-- one entry per write call before the weight section: `some s` literal text, `none` the dimension in decimal -/\n")
		b.WriteString("def hdrWrites : List (List (Option String)) := [")
		if foundHdr {
			ws := []string{}
			for _, w := range hdr {
				ss := []string{}
				for _, sg := range w {
					if sg.isN {
						ss = append(ss, "none")
					} else {
						ss = append(ss, "some "+c20LeanString(sg.lit))
					}
				}
				ws = append(ws, "["+strings.Join(ss, ", ")+"]")
			}
			b.WriteString("\n  " + strings.Join(ws, ",\n  "))
		} else {
			before, after = "", ""
		}
		b.WriteString("]\n\n")
		b.WriteString("def hdrBeforeN : String := " + c20LeanString(before) + "\n")
		b.WriteString("def hdrAfterN : String := " + c20LeanString(after) + "\n\n")
		b.WriteString("/-- the text written after the weight section was recognised -/\n")
		b.WriteString("def found_trailer : Bool := " + boolS(foundTrailer) + "\n")
		b.WriteString("def trailerWrites : List String := [")
		if foundTrailer {
			ss := []string{}
			for _, t := range trailerLits {
				ss = append(ss, c20LeanString(t))
			}
			b.WriteString(strings.Join(ss, ", "))
		}
		b.WriteString("]\n\n")
		b.WriteString("/-- `tabwriter.NewWriter(w, minwidth, tabwidth, padding, padchar, flags)` was found with constant arguments -/\n")
		b.WriteString("def found_tabwriter : Bool := " + boolS(foundTw) + "\n")
		if !foundTw {
			twv = [5]int64{}
		}
		b.WriteString("def twMinwidth : Nat := " + strconv.FormatInt(twv[0], 10) + "\n")
		b.WriteString("def twTabwidth : Nat := " + strconv.FormatInt(twv[1], 10) + "\n")
		b.WriteString("def twPadding : Nat := " + strconv.FormatInt(twv[2], 10) + "\n")
		if twv[3] > 0x10ffff {
			die("c20: padchar out of range")
		}
		b.WriteString("def twPadchar : Char := " + c20LeanChar(rune(twv[3])) + "\n")
		b.WriteString("def twFlags : Nat := " + strconv.FormatInt(twv[4], 10) + "\n")
		b.WriteString("/-- `flags & tabwriter.AlignRight != 0` -/\n")
		b.WriteString("def twAlignRight : Bool := " + boolS(twv[4]&alignRight != 0) + "\n")
		b.WriteString("/-- `flags &^ tabwriter.AlignRight` (the model supports only 0) -/\n")
		b.WriteString("def twOtherFlags : Nat := " + strconv.FormatInt(twv[4]&^alignRight, 10) + "\n\n")
		b.WriteString("/-- informational only (no theorem refers to it): calls, loops, ifs and returns of `LIB` in source order -/\n")
		fps := []string{}
		for _, x := range fp {
			fps = append(fps, c20LeanString(x))
		}
		b.WriteString("def fpLIB : List String := [" + strings.Join(fps, ", ") + "]\n\n")
		b.WriteString("end Gen.Tsp\n")
		return "TspConsts.lean", b.String()
	})
}
