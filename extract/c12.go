package main

// Generator for lean/Mamba/Gen/DawgConsts.lean (C12, C14): the literal constants of dawg/dawg.go that the behaviour of
// the builder's order check and of the serialisation depends on, located by function name and syntactic role (never by
// line or statement number), plus informational structural fingerprints of the modelled functions.
//
// Policy: every item has a DEFAULT, the hand-written value the model used before regeneration. The items are grouped by
// the Go function they come from; when every item of a group is recognised the values found in the source are emitted,
// otherwise (the function was restructured) the whole group falls back to its defaults and `found_<group> := false`
// (`found_<item>` per item). Nothing in Props/ depends on the `found_…` flags: with the defaults the model is what it
// was before regeneration and the correspondence alone ties it to the code. The items that were not regenerated are
// listed in `Gen.Dawg.notRegenerated` and in facts.json under `not_regenerated:DawgConsts.lean`.

import (
	"fmt"
	"go/ast"
	"go/constant"
	"go/token"
	"path/filepath"
	"sort"
	"strconv"
	"strings"
)

type c12Item struct {
	name, doc string
	val, def  int64
	ok        bool
	// for predicates: Lean text instead of a number
	pred, predDef, sig string
}

type c12Ctx struct {
	p       *pkgInfo
	missing []string // names of the items that were not regenerated (their group fell back to the defaults)
	group   []c12Item
}

func c12Strip(e ast.Expr) ast.Expr {
	for {
		switch v := e.(type) {
		case *ast.ParenExpr:
			e = v.X
		default:
			return e
		}
	}
}

// c12Conv strips parentheses and single-argument conversions / calls like byte(x), uint(x), int(x), uint64(x).
func c12Conv(e ast.Expr) ast.Expr {
	for {
		e = c12Strip(e)
		call, ok := e.(*ast.CallExpr)
		if !ok || len(call.Args) != 1 {
			return e
		}
		id, ok := call.Fun.(*ast.Ident)
		if !ok {
			return e
		}
		switch id.Name {
		case "byte", "uint", "int", "uint8", "uint64", "int64":
			e = call.Args[0]
		default:
			return e
		}
	}
}

// c12Int evaluates a constant integer expression (possibly negative).
func (c *c12Ctx) c12Int(e ast.Expr) (int64, bool) {
	tv, ok := c.p.info.Types[e]
	if !ok || tv.Value == nil {
		return 0, false
	}
	v := constant.ToInt(tv.Value)
	if v.Kind() != constant.Int {
		return 0, false
	}
	n, exact := constant.Int64Val(v)
	return n, exact
}

func (c *c12Ctx) fn(name, recv string) *ast.FuncDecl {
	for _, f := range c.p.files {
		for _, d := range f.Decls {
			fd, ok := d.(*ast.FuncDecl)
			if !ok || fd.Name.Name != name || fd.Body == nil {
				continue
			}
			r := ""
			if fd.Recv != nil && len(fd.Recv.List) == 1 {
				t := fd.Recv.List[0].Type
				if s, ok := t.(*ast.StarExpr); ok {
					t = s.X
				}
				if id, ok := t.(*ast.Ident); ok {
					r = id.Name
				}
			}
			if r == recv {
				return fd
			}
		}
	}
	die("dawg: function %s (receiver %q) not found", name, recv)
	return nil
}

func c12IsIdent(e ast.Expr, name string) bool {
	id, ok := c12Strip(e).(*ast.Ident)
	return ok && id.Name == name
}

// cmp describes `<operand> op K`.
type c12Cmp struct {
	op token.Token
	k  int64
}

// c12Compare recognises `X op K` or `K op X` (mirrored) where sel(X) holds.
func (c *c12Ctx) compare(e ast.Expr, sel func(ast.Expr) bool) (c12Cmp, bool) {
	be, ok := c12Strip(e).(*ast.BinaryExpr)
	if !ok {
		return c12Cmp{}, false
	}
	mirror := map[token.Token]token.Token{token.LSS: token.GTR, token.LEQ: token.GEQ, token.GTR: token.LSS, token.GEQ: token.LEQ, token.EQL: token.EQL, token.NEQ: token.NEQ}
	if _, isCmp := mirror[be.Op]; !isCmp {
		return c12Cmp{}, false
	}
	if k, ok := c.c12Int(be.Y); ok && sel(be.X) {
		return c12Cmp{be.Op, k}, true
	}
	if k, ok := c.c12Int(be.X); ok && sel(be.Y) {
		return c12Cmp{mirror[be.Op], k}, true
	}
	return c12Cmp{}, false
}

// below turns `v < K` / `v <= K` into the exclusive bound; from turns `v > K` / `v >= K` / `v != 0` into the inclusive one.
func (m c12Cmp) below() (int64, bool) {
	switch m.op {
	case token.LSS:
		return m.k, m.k >= 0
	case token.LEQ:
		return m.k + 1, m.k+1 >= 0
	}
	return 0, false
}

func (m c12Cmp) from() (int64, bool) {
	switch m.op {
	case token.GTR:
		return m.k + 1, m.k+1 >= 0
	case token.GEQ:
		return m.k, m.k >= 0
	case token.NEQ:
		if m.k == 0 {
			return 1, true
		}
	}
	return 0, false
}

// lean renders the comparison as a Lean proposition about the variable v.
func (m c12Cmp) lean(v string) string {
	op := map[token.Token]string{token.LSS: "<", token.LEQ: "≤", token.GTR: ">", token.GEQ: "≥", token.EQL: "=", token.NEQ: "≠"}[m.op]
	k := strconv.FormatInt(m.k, 10)
	if m.k < 0 {
		k = "(" + k + ")"
	}
	return v + " " + op + " " + k
}

func c12Calls(fd *ast.FuncDecl, pkgNames map[string]bool) string {
	var calls []string
	counts := map[string]int{}
	ast.Inspect(fd.Body, func(n ast.Node) bool {
		switch v := n.(type) {
		case *ast.CallExpr:
			switch f := v.Fun.(type) {
			case *ast.Ident:
				calls = append(calls, f.Name)
			case *ast.SelectorExpr:
				if id, ok := f.X.(*ast.Ident); ok && pkgNames[id.Name] {
					calls = append(calls, id.Name+"."+f.Sel.Name)
				} else {
					calls = append(calls, "."+f.Sel.Name)
				}
			default:
				calls = append(calls, "?")
			}
		case *ast.IfStmt:
			counts["if"]++
		case *ast.ForStmt:
			counts["for"]++
		case *ast.RangeStmt:
			counts["range"]++
		case *ast.ReturnStmt:
			counts["return"]++
		case *ast.IndexExpr:
			counts["index"]++
		case *ast.SliceExpr:
			counts["slice"]++
		case *ast.AssignStmt:
			counts["assign"]++
		case *ast.IncDecStmt:
			counts["incdec"]++
		case *ast.BranchStmt:
			counts["branch"]++
		}
		return true
	})
	keys := []string{}
	for k := range counts {
		keys = append(keys, k)
	}
	sort.Strings(keys)
	parts := []string{"calls=" + strings.Join(calls, ",")}
	for _, k := range keys {
		parts = append(parts, fmt.Sprintf("%s=%d", k, counts[k]))
	}
	return strings.Join(parts, ";")
}

func c12List(a []int64) string {
	parts := []string{}
	for _, x := range a {
		parts = append(parts, strconv.FormatInt(x, 10))
	}
	return "[" + strings.Join(parts, ", ") + "]"
}

// c12WriteFacts records the items that were not regenerated in facts.json.
func c12WriteFacts(missing []string) {
	if missing == nil {
		missing = []string{}
	}
	extraFacts["not_regenerated:DawgConsts.lean"] = missing
}

func init() {
	registerGen(func(repo string) (string, string) {
		c := &c12Ctx{p: loadPkg(filepath.Join(repo, "dawg"))}
		var b strings.Builder
		b.WriteString("/-! GENERATED by /verif/extract (extract/c12.go) from /repo/dawg/dawg.go on every run — do not edit.\n")
		b.WriteString("Constants are located by function name and syntactic role, grouped by function. `found_… = false`: the group was not\nrecognised and shows its DEFAULTS (the hand-written values of the model before regeneration); no theorem depends on\nthe `found_…` flags. -/\n")
		b.WriteString("namespace Gen.Dawg\n\n")
		defaults := map[string]int64{"encBelow": 128, "lzBits": 64, "lzShift": 3, "encBufFull": 9, "encPrefixSum": 136,
			"encLoopBound": 8, "encDstOffset": 1, "encShiftUnit": 8, "encShiftTop": 7, "decBelow": 128, "decPrefixBase": 128,
			"decTooManyFrom": 9, "decShift": 8, "encBufSize": 9, "decBufSize": 9, "finalTrueByte": 1, "finalFalseByte": 0,
			"addHasWordFrom": 1}
		nat := func(name string, v int64, ok bool, doc string) {
			def, has := defaults[name]
			if !has {
				die("dawg: no default for %s", name)
			}
			c.group = append(c.group, c12Item{name: name, doc: doc, val: v, def: def, ok: ok && v >= 0})
		}
		pred := func(name, sig, text string, ok bool, def, doc string) {
			c.group = append(c.group, c12Item{name: name, doc: doc, ok: ok, pred: text, predDef: def, sig: sig})
		}
		// flush emits the pending group: the values found if every item was recognised, the defaults otherwise
		flush := func(flag, doc string) {
			all := true
			for _, it := range c.group {
				all = all && it.ok
			}
			for _, it := range c.group {
				if it.sig != "" {
					text := it.pred
					if !all {
						text = it.predDef
					}
					fmt.Fprintf(&b, "/-- %s -/\ndef %s %s := %s\n", it.doc, it.name, it.sig, text)
				} else {
					v := it.val
					if !all {
						v = it.def
					}
					fmt.Fprintf(&b, "/-- %s -/\ndef %s : Nat := %d\n", it.doc, it.name, v)
				}
				fmt.Fprintf(&b, "def found_%s : Bool := %v\n\n", it.name, all)
				if !all {
					c.missing = append(c.missing, it.name)
				}
			}
			fmt.Fprintf(&b, "/-- %s -/\ndef %s : Bool := %v\n\n", doc, flag, all)
			c.group = nil
		}

		// ---------------- encodeUint64 ----------------
		enc := c.fn("encodeUint64", "")
		xName := ""
		if len(enc.Type.Params.List) > 0 && len(enc.Type.Params.List[0].Names) > 0 {
			xName = enc.Type.Params.List[0].Names[0].Name
		}
		// `if x <= 127`: first if-statement comparing the value parameter with a constant by < or <=
		{
			var v int64
			ok := false
			ast.Inspect(enc.Body, func(n ast.Node) bool {
				if is, isIf := n.(*ast.IfStmt); isIf && !ok {
					if m, good := c.compare(is.Cond, func(e ast.Expr) bool { return c12IsIdent(e, xName) }); good {
						v, ok = m.below()
					}
				}
				return !ok
			})
			nat("encBelow", v, ok, "`if x <= 127` in encodeUint64: values below this bound are written as one byte")
		}
		// `bits.LeadingZeros64(x) >> 3` and the variable it is assigned to
		zb := ""
		{
			var bitsN, sh int64
			ok := false
			ast.Inspect(enc.Body, func(n ast.Node) bool {
				as, isAs := n.(*ast.AssignStmt)
				if !isAs || ok || len(as.Lhs) != 1 || len(as.Rhs) != 1 {
					return true
				}
				be, isBin := c12Strip(as.Rhs[0]).(*ast.BinaryExpr)
				if !isBin || be.Op != token.SHR {
					return true
				}
				call, isCall := c12Conv(be.X).(*ast.CallExpr)
				if !isCall {
					return true
				}
				sel, isSel := call.Fun.(*ast.SelectorExpr)
				if !isSel || !strings.HasPrefix(sel.Sel.Name, "LeadingZeros") {
					return true
				}
				w, err := strconv.Atoi(strings.TrimPrefix(sel.Sel.Name, "LeadingZeros"))
				k, good := c.c12Int(be.Y)
				if id, isId := as.Lhs[0].(*ast.Ident); isId && err == nil && good {
					zb, bitsN, sh, ok = id.Name, int64(w), k, true
				}
				return true
			})
			nat("lzBits", bitsN, ok, "width of `bits.LeadingZeros64`")
			nat("lzShift", sh, ok, "`>> 3`: leading zero bits to leading zero bytes")
		}
		subZb := func(e ast.Expr) (int64, bool) { // K - zeroBytes
			be, ok := c12Conv(e).(*ast.BinaryExpr)
			if !ok || be.Op != token.SUB || zb == "" || !c12IsIdent(c12Conv(be.Y), zb) {
				return 0, false
			}
			return c.c12Int(be.X)
		}
		// `buf[:9-zeroBytes]`
		{
			var v int64
			ok := false
			ast.Inspect(enc.Body, func(n ast.Node) bool {
				if se, isS := n.(*ast.SliceExpr); isS && !ok && se.High != nil {
					v, ok = subZb(se.High)
				}
				return true
			})
			nat("encBufFull", v, ok, "`buf[:9-zeroBytes]`: length of the encoding of a value without leading zero bytes")
		}
		// `buf[0] = 128 + 8 - byte(zeroBytes)`
		{
			var v int64
			ok := false
			ast.Inspect(enc.Body, func(n ast.Node) bool {
				as, isAs := n.(*ast.AssignStmt)
				if !isAs || ok || len(as.Lhs) != 1 || len(as.Rhs) != 1 {
					return true
				}
				ix, isIx := as.Lhs[0].(*ast.IndexExpr)
				if !isIx {
					return true
				}
				if k, good := c.c12Int(ix.Index); !good || k != 0 {
					return true
				}
				v, ok = subZb(as.Rhs[0])
				return true
			})
			nat("encPrefixSum", v, ok, "`128 + 8` in `buf[0] = 128 + 8 - byte(zeroBytes)`: first byte of the encoding of a full-width value")
		}
		// the copy loop: `for i := 0; i < 8-zeroBytes; i++ { buf[1+i] = byte(x >> uint(8*(7-(i+zeroBytes)))) }`
		{
			var bound, off, unit, top int64
			okB, okO, okS := false, false, false
			ast.Inspect(enc.Body, func(n ast.Node) bool {
				fs, isFor := n.(*ast.ForStmt)
				if !isFor || fs.Cond == nil {
					return true
				}
				cond, isBin := c12Strip(fs.Cond).(*ast.BinaryExpr)
				if !isBin || cond.Op != token.LSS {
					return true
				}
				iv, isId := c12Strip(cond.X).(*ast.Ident)
				if !isId {
					return true
				}
				if k, good := subZb(cond.Y); good {
					bound, okB = k, true
				}
				ast.Inspect(fs.Body, func(m ast.Node) bool {
					as, isAs := m.(*ast.AssignStmt)
					if !isAs || len(as.Lhs) != 1 || len(as.Rhs) != 1 {
						return true
					}
					if ix, isIx := as.Lhs[0].(*ast.IndexExpr); isIx {
						if add, isAdd := c12Strip(ix.Index).(*ast.BinaryExpr); isAdd && add.Op == token.ADD {
							if k, good := c.c12Int(add.X); good && c12IsIdent(add.Y, iv.Name) {
								off, okO = k, true
							} else if k, good := c.c12Int(add.Y); good && c12IsIdent(add.X, iv.Name) {
								off, okO = k, true
							}
						}
					}
					if sh, isSh := c12Conv(as.Rhs[0]).(*ast.BinaryExpr); isSh && sh.Op == token.SHR && c12IsIdent(sh.X, xName) {
						if mul, isMul := c12Conv(sh.Y).(*ast.BinaryExpr); isMul && mul.Op == token.MUL {
							if u, good := c.c12Int(mul.X); good {
								if sub, isSub := c12Conv(mul.Y).(*ast.BinaryExpr); isSub && sub.Op == token.SUB {
									if t, good2 := c.c12Int(sub.X); good2 {
										if add, isAdd := c12Conv(sub.Y).(*ast.BinaryExpr); isAdd && add.Op == token.ADD &&
											((c12IsIdent(add.X, iv.Name) && c12IsIdent(add.Y, zb)) || (c12IsIdent(add.Y, iv.Name) && c12IsIdent(add.X, zb))) {
											unit, top, okS = u, t, true
										}
									}
								}
							}
						}
					}
					return true
				})
				return true
			})
			nat("encLoopBound", bound, okB, "`i < 8-zeroBytes`: number of value bytes of a full-width value")
			nat("encDstOffset", off, okO, "`buf[1+i]`: position of the first value byte")
			nat("encShiftUnit", unit, okS, "`8*(…)`: bits per byte in the shift")
			nat("encShiftTop", top, okS, "`7-(i+zeroBytes)`: index of the most significant byte")
		}

		flush("foundEncodeUint64", "every constant of encodeUint64 was recognised (false: the group shows its defaults)")

		// ---------------- decodeUint64 ----------------
		dec := c.fn("decodeUint64", "")
		{
			var v int64
			ok := false
			ast.Inspect(dec.Body, func(n ast.Node) bool {
				if is, isIf := n.(*ast.IfStmt); isIf && !ok {
					if m, good := c.compare(is.Cond, func(e ast.Expr) bool {
						switch c12Strip(e).(type) {
						case *ast.IndexExpr, *ast.Ident:
							return true
						}
						return false
					}); good {
						if bnd, isBelow := m.below(); isBelow {
							v, ok = bnd, true
						}
					}
				}
				return true
			})
			nat("decBelow", v, ok, "`if buf[0] <= 127` in decodeUint64: first bytes below this bound are the value itself")
		}
		{
			var v int64
			ok := false
			ast.Inspect(dec.Body, func(n ast.Node) bool {
				as, isAs := n.(*ast.AssignStmt)
				if !isAs || ok || len(as.Rhs) != 1 {
					return true
				}
				be, isBin := c12Strip(as.Rhs[0]).(*ast.BinaryExpr)
				if !isBin || be.Op != token.SUB {
					return true
				}
				if _, isCall := c12Strip(be.X).(*ast.CallExpr); !isCall {
					return true
				}
				v, ok = c.c12Int(be.Y)
				return true
			})
			nat("decPrefixBase", v, ok, "`n = int(b) - 128`: what is subtracted from the first byte to get the number of value bytes")
		}
		{
			var v int64
			ok := false
			ast.Inspect(dec.Body, func(n ast.Node) bool {
				if is, isIf := n.(*ast.IfStmt); isIf && !ok {
					if m, good := c.compare(is.Cond, func(e ast.Expr) bool { _, isId := c12Strip(e).(*ast.Ident); return isId }); good {
						if f, isFrom := m.from(); isFrom && (m.op == token.GTR || m.op == token.GEQ) {
							v, ok = f, true
						}
					}
				}
				return true
			})
			nat("decTooManyFrom", v, ok, "`if n > 8`: byte counts from this value on are rejected with an error")
		}
		{
			var v int64
			ok := false
			ast.Inspect(dec.Body, func(n ast.Node) bool {
				if be, isBin := n.(*ast.BinaryExpr); isBin && !ok && be.Op == token.OR {
					if sh, isSh := c12Strip(be.X).(*ast.BinaryExpr); isSh && sh.Op == token.SHL {
						v, ok = c.c12Int(sh.Y)
					}
				}
				return true
			})
			nat("decShift", v, ok, "`x = x<<8 | uint64(b)`")
		}
		flush("foundDecodeUint64", "every constant of decodeUint64 was recognised")

		// ---------------- buffers (information only: no theorem depends on them except `8 ≤ decBufSize`) -------------
		bufSize := func(fd *ast.FuncDecl) (int64, bool) {
			var v int64
			ok := false
			ast.Inspect(fd.Body, func(n ast.Node) bool {
				call, isCall := n.(*ast.CallExpr)
				if !isCall || ok || len(call.Args) != 2 || !c12IsIdent(call.Fun, "make") {
					return true
				}
				if at, isArr := call.Args[0].(*ast.ArrayType); isArr && at.Len == nil && c12IsIdent(at.Elt, "byte") {
					v, ok = c.c12Int(call.Args[1])
				}
				return true
			})
			return v, ok
		}
		ge := c.fn("GobEncode", "Dawg")
		gd := c.fn("GobDecode", "Dawg")
		{
			v, ok := bufSize(ge)
			nat("encBufSize", v, ok, "`buf := make([]byte, 9)` in GobEncode (scratch buffer handed to encodeUint64)")
			v, ok = bufSize(gd)
			nat("decBufSize", v, ok, "`buf := make([]byte, 9)` in GobDecode (scratch buffer handed to decodeUint64)")
		}
		flush("foundBuffers", "both scratch buffer sizes were recognised")

		// ---------------- final flag ----------------
		{
			var tv, fv []int64
			appended := func(stmts []ast.Stmt) (int64, bool) {
				if len(stmts) != 1 {
					return 0, false
				}
				as, ok := stmts[0].(*ast.AssignStmt)
				if !ok || len(as.Rhs) != 1 {
					return 0, false
				}
				call, ok := as.Rhs[0].(*ast.CallExpr)
				if !ok || !c12IsIdent(call.Fun, "append") || len(call.Args) != 2 {
					return 0, false
				}
				return c.c12Int(call.Args[1])
			}
			ast.Inspect(ge.Body, func(n ast.Node) bool {
				is, isIf := n.(*ast.IfStmt)
				if !isIf {
					return true
				}
				sel, isSel := c12Strip(is.Cond).(*ast.SelectorExpr)
				if !isSel || sel.Sel.Name != "final" {
					return true
				}
				els, isBlock := is.Else.(*ast.BlockStmt)
				if !isBlock {
					return true
				}
				t, ok1 := appended(is.Body.List)
				f, ok2 := appended(els.List)
				if ok1 && ok2 {
					tv, fv = append(tv, t), append(fv, f)
				}
				return true
			})
			same := func(a []int64) bool {
				for _, x := range a {
					if x != a[0] {
						return false
					}
				}
				return len(a) > 0
			}
			var t, f int64
			ok := len(tv) > 0
			if ok {
				t, f = tv[0], fv[0]
			}
			_ = same
			nat("finalTrueByte", t, ok, "byte written by GobEncode for a final node (`b = append(b, 1)`), the same at every site")
			nat("finalFalseByte", f, ok, "byte written by GobEncode for a non-final node (`b = append(b, 0)`)")
			// `if final != 0 { ….final = true } else { ….final = false }` in GobDecode
			predText := "false"
			okP := false
			setsFinal := func(stmts []ast.Stmt, want string) bool {
				if len(stmts) != 1 {
					return false
				}
				as, ok := stmts[0].(*ast.AssignStmt)
				if !ok || len(as.Lhs) != 1 || len(as.Rhs) != 1 {
					return false
				}
				sel, ok := as.Lhs[0].(*ast.SelectorExpr)
				return ok && sel.Sel.Name == "final" && c12IsIdent(as.Rhs[0], want)
			}
			ast.Inspect(gd.Body, func(n ast.Node) bool {
				is, isIf := n.(*ast.IfStmt)
				if !isIf || okP {
					return true
				}
				m, good := c.compare(is.Cond, func(e ast.Expr) bool { _, isId := c12Strip(e).(*ast.Ident); return isId })
				els, isBlock := is.Else.(*ast.BlockStmt)
				if !good || !isBlock {
					return true
				}
				if setsFinal(is.Body.List, "true") && setsFinal(els.List, "false") {
					predText, okP = "decide ("+m.lean("(b : Int)")+")", true
				} else if setsFinal(is.Body.List, "false") && setsFinal(els.List, "true") {
					predText, okP = "!decide ("+m.lean("(b : Int)")+")", true
				}
				return true
			})
			flush("foundFinalWrite", "the final-flag bytes written by GobEncode were recognised (all sites)")
			fmt.Fprintf(&b, "/-- the final-flag bytes at every recognised site of GobEncode, in source order: a site that disagrees with\n`finalTrueByte` / `finalFalseByte` is a real inconsistency of the source and is reported through `constants_consistent` -/\ndef finalTrueSites : List Nat := %s\ndef finalFalseSites : List Nat := %s\n\n", c12List(tv), c12List(fv))
			pred("decFinalSet", "(b : Nat) : Bool", predText, okP, "decide ((b : Int) ≠ 0)", "`if final != 0` in GobDecode: which flag bytes are read as \"final\"")
			flush("foundFinalRead", "the test of the final-flag byte in GobDecode was recognised")
		}

		// ---------------- Add: `db.d.numWords > 0 && bytes.Compare(db.lastWord, b) != -1` ----------------
		{
			add := c.fn("Add", "Builder")
			pName := ""
			if len(add.Type.Params.List) > 0 && len(add.Type.Params.List[0].Names) > 0 {
				pName = add.Type.Params.List[0].Names[0].Name
			}
			isCompare := func(e ast.Expr) bool {
				call, ok := c12Strip(e).(*ast.CallExpr)
				if !ok || len(call.Args) != 2 {
					return false
				}
				sel, ok := call.Fun.(*ast.SelectorExpr)
				if !ok || sel.Sel.Name != "Compare" || !c12IsIdent(sel.X, "bytes") {
					return false
				}
				a0, ok := c12Strip(call.Args[0]).(*ast.SelectorExpr)
				return ok && a0.Sel.Name == "lastWord" && c12IsIdent(call.Args[1], pName)
			}
			isNumWords := func(e ast.Expr) bool {
				sel, ok := c12Strip(e).(*ast.SelectorExpr)
				return ok && sel.Sel.Name == "numWords"
			}
			hasFrom, okH := int64(0), false
			rej, okR := "false", false
			ast.Inspect(add.Body, func(n ast.Node) bool {
				is, isIf := n.(*ast.IfStmt)
				if !isIf || okR {
					return true
				}
				land, isBin := c12Strip(is.Cond).(*ast.BinaryExpr)
				if !isBin || land.Op != token.LAND {
					return true
				}
				for _, side := range []ast.Expr{land.X, land.Y} {
					if m, good := c.compare(side, isCompare); good {
						rej, okR = "decide ("+m.lean("c")+")", true
					}
					if m, good := c.compare(side, isNumWords); good {
						hasFrom, okH = m.from()
					}
				}
				return true
			})
			nat("addHasWordFrom", hasFrom, okH, "`db.d.numWords > 0`: the order check applies from this many stored words on")
			pred("addOrderReject", "(c : Int) : Bool", rej, okR, "decide (c ≠ (-1))", "`bytes.Compare(db.lastWord, b) != -1`: the results of the comparison (last word, new word) for which Add\nreturns an error")
		}
		flush("foundOrderCheck", "both halves of the order check of Add were recognised")

		// ---------------- fingerprints (information only; no theorem may depend on them) ----------------
		pkgNames := map[string]bool{}
		for _, f := range c.p.files {
			for _, im := range f.Imports {
				path, _ := strconv.Unquote(im.Path.Value)
				name := filepath.Base(path)
				if im.Name != nil {
					name = im.Name.Name
				}
				pkgNames[name] = true
			}
		}
		for _, f := range [][2]string{{"Add", "Builder"}, {"Finish", "Builder"}, {"commonPrefix", "Dawg"}, {"Lookup", "Dawg"},
			{"replaceOrRegister", ""}, {"areEquivalent", ""}, {"addSuffix", "Dawg"}, {"listNodesCountEdges", "Dawg"},
			{"GobEncode", "Dawg"}, {"GobDecode", "Dawg"}, {"encodeUint64", ""}, {"decodeUint64", ""}} {
			fmt.Fprintf(&b, "def fp_%s : String := %s\n", f[0], strconv.Quote(c12Calls(c.fn(f[0], f[1]), pkgNames)))
		}
		fmt.Fprintf(&b, "\n/-- items that were NOT regenerated (their group was not recognised; they show the defaults) -/\ndef notRegenerated : List String := [%s]\n", func() string {
			q := []string{}
			for _, m := range c.missing {
				q = append(q, strconv.Quote(m))
			}
			return strings.Join(q, ", ")
		}())
		b.WriteString("\nend Gen.Dawg\n")
		c12WriteFacts(c.missing)
		return "DawgConsts.lean", b.String()
	})
}
