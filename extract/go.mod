module verifextract

go 1.21
